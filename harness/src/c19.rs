//! C19: position along a curve is a faithful arc-length parametrisation.
use crate::out::Out;
use crate::proto::Line;
use crate::registry::c16::{
    all_layouts, describe, enc_len, enc_pts, has_nan_inf, has_type, impl_curve, length_classes, make, max_abs, random_points,
    sliders_of, osu_text, Cp, CurveCase, D11_LINE,
};
use crate::rng::Rng;
use crate::util::guarded;
use rosu_map::section::hit_objects::Curve;
use rosu_map::util::Pos;

pub const RULE: &str = "a case is non-trivial when the curve has at least 3 vertices and a positive distance";

fn special_progress() -> Vec<f64> {
    vec![
        0.0,
        -0.0,
        1.0,
        0.5,
        -0.5,
        -1e300,
        1.5,
        2.0,
        1e300,
        f64::INFINITY,
        f64::NEG_INFINITY,
        f64::MIN_POSITIVE,
        5e-324,
        -5e-324,
        1.0 - f64::EPSILON / 2.0,
        1.0 + f64::EPSILON,
        1e-9,
        0.25,
        0.999,
    ]
}

fn dist2(a: Pos, b: Pos) -> f64 {
    let dx = a.x as f64 - b.x as f64;
    let dy = a.y as f64 - b.y as f64;
    (dx * dx + dy * dy).sqrt()
}
fn same_pos(a: Pos, b: Pos) -> bool {
    let c = |x: f32| if x.is_nan() { 0x7fc0_0000 } else { x.to_bits() };
    c(a.x) == c(b.x) && c(a.y) == c(b.y)
}

pub fn run_case(c: &CurveCase, extra: &[f64], r: &mut Rng, out: &mut Out) {
    let cv = match impl_curve(c) {
        Ok(cv) => cv,
        Err(_) => return,
    };
    let mut line = Line::entry("c19");
    line.u(c.mode as u64);
    enc_pts(&mut line, &c.pts);
    enc_len(&mut line, c.len);
    // progress values: specials, dense grid, random, exact vertex fractions
    let mut ps = special_progress();
    for i in 0..=16 {
        ps.push(i as f64 / 16.0);
    }
    for _ in 0..8 {
        ps.push(r.unit());
    }
    ps.extend_from_slice(extra);
    let d = cv.dist();
    let lens = cv.lengths();
    let mut vertex_fracs: Vec<(usize, f64)> = vec![];
    if d > 0.0 && d.is_finite() {
        let step = (lens.len() / 12).max(1);
        for (i, l) in lens.iter().enumerate() {
            if i % step == 0 || i + 2 >= lens.len() {
                vertex_fracs.push((i, l / d));
            }
        }
    }
    let nvf_start = ps.len();
    ps.extend(vertex_fracs.iter().map(|v| v.1));
    line.u(ps.len() as u64);
    for p in &ps {
        line.f64(*p);
    }
    // (i, d) pairs for interpolate_vertices / idx_of_dist
    let mut pairs: Vec<(usize, f64)> = vec![];
    let n = cv.path().len();
    for i in [0usize, 1, 2, n.saturating_sub(1), n, n + 1, n + 7] {
        pairs.push((i, d * r.unit()));
    }
    for _ in 0..4 {
        let i = r.below(n + 2);
        let dd = match r.below(4) {
            0 => lens.get(i).copied().unwrap_or(d),
            1 => -1.0,
            2 => d * 2.0 + 1.0,
            _ => d * r.unit(),
        };
        pairs.push((i, dd));
    }
    pairs.push((1, f64::NAN));
    line.u(pairs.len() as u64);
    for (i, dd) in &pairs {
        line.u(*i as u64).f64(*dd);
    }

    let mut res = Line::new();
    res.u(0).f64(d);
    let mut pos: Vec<Pos> = vec![];
    let mut dists: Vec<f64> = vec![];
    let ok = guarded(|| {
        let mut v = vec![];
        for p in &ps {
            let q = cv.position_at(*p);
            let dd = cv.progress_to_dist(*p);
            let i = cv.idx_of_dist(dd);
            v.push((q, dd, i));
        }
        let mut w = vec![];
        for (i, dd) in &pairs {
            w.push((cv.interpolate_vertices(*i, *dd), cv.idx_of_dist(*dd)));
        }
        (v, w)
    });
    let desc = describe(c);
    match ok {
        Ok((v, w)) => {
            for (q, dd, i) in &v {
                res.u(0).f32(q.x).f32(q.y).f64(*dd).u(*i as u64);
                pos.push(*q);
                dists.push(*dd);
            }
            for (q, i) in &w {
                res.u(0).f32(q.x).f32(q.y).u(*i as u64);
            }
        }
        Err(e) => {
            // the dump cannot be completed; the model's Panic shows as a difference in shape
            res.u(1);
            out.oracle_checks += 1;
            out.fail("", &desc, &format!("panic in position_at & co: {}", e));
        }
    }
    let nontrivial = n >= 3 && d > 0.0;
    out.count(&format!("vertices:{}", if n < 3 { n.to_string() } else if n < 20 { "3..19".into() } else { "20+".into() }));
    if d == 0.0 {
        out.count("zero-length");
    }
    if c.len.is_some() {
        out.count("length-adjusted");
    }
    if cv.lengths().windows(2).any(|w| w[0] == w[1]) {
        out.count("duplicate-lengths");
    }
    out.case(line.0, res.0, desc.clone(), nontrivial);
    if pos.len() == ps.len() {
        oracle(c, &cv, &ps, &pos, &dists, nvf_start, &vertex_fracs, out, &desc);
    }
}

#[allow(clippy::too_many_arguments)]
fn oracle(c: &CurveCase, cv: &Curve, ps: &[f64], pos: &[Pos], dists: &[f64], nvf_start: usize, vf: &[(usize, f64)], out: &mut Out, desc: &str) {
    if has_nan_inf(&c.pts) || max_abs(&c.pts) > 1.0e18 || c.len.map_or(false, |l| !l.is_finite()) {
        out.count("oracle:outside-quantifier");
        return;
    }
    let path = cv.path();
    let lens = cv.lengths();
    let d = cv.dist();
    if path.is_empty() {
        return;
    }
    let nan_path = path.iter().any(|p| p.x.is_nan() || p.y.is_nan());
    let osu_catmull = c.mode == 0 && has_type(&c.pts, 1);
    // D14: non-finite vertices out of an ill-conditioned three-point perfect curve
    let bad_arc = has_type(&c.pts, 4) && path.iter().any(|p| !p.x.is_finite() || !p.y.is_finite());
    let cls = if bad_arc { "D19" } else if nan_path && osu_catmull { "D11" } else { "" };
    let mut fail = |out: &mut Out, det: String| {
        if !cls.is_empty() {
            let key = format!("oracle:{}", cls);
            out.count(&key);
            if out.dist.get(&key).copied().unwrap_or(0) > 10 {
                return;
            }
        }
        out.fail(cls, desc, &det);
    };
    if lens.iter().any(|l| !l.is_finite()) {
        out.count("oracle:outside-quantifier");
        return;
    }
    let first = path[0];
    let last = path[path.len() - 1];
    let mag = path.iter().fold(0.0f64, |m, p| m.max(p.x.abs() as f64).max(p.y.abs() as f64));
    // rounding slack: f32 coordinates (2^-23 relative), a handful of operations
    let slack = 1e-3 + 4e-6 * (mag + d.abs());
    let at = |p: f64| ps.iter().position(|q| q.to_bits() == p.to_bits()).map(|i| pos[i]);
    // progress 0 -> first point, 1 -> last point
    out.oracle_checks += 1;
    if let Some(q) = at(0.0) {
        if !same_pos(q, first) {
            fail(out, format!("position_at(0) = ({}, {}) is not the first vertex ({}, {})", q.x, q.y, first.x, first.y));
        }
    }
    if let Some(q) = at(1.0) {
        if !(dist2(q, last) <= slack) {
            fail(out, format!("position_at(1) = ({}, {}) is not the last vertex ({}, {})", q.x, q.y, last.x, last.y));
        }
    }
    // clamping; the distance for a progress is progress x total distance
    for (i, p) in ps.iter().enumerate() {
        out.oracle_checks += 1;
        let cl = if *p < 0.0 { 0.0 } else if *p > 1.0 { 1.0 } else { *p };
        let want = cl * d;
        if want.to_bits() != dists[i].to_bits() {
            fail(out, format!("progress_to_dist({:e}) = {:e}, expected {:e}", p, dists[i], want));
        }
        let clamped_to = if *p < 0.0 { at(0.0) } else if *p > 1.0 { at(1.0) } else { None };
        if let Some(q) = clamped_to {
            if !same_pos(q, pos[i]) {
                fail(out, format!("position_at({:e}) = ({}, {}) differs from the clamped progress ({}, {})", p, pos[i].x, pos[i].y, q.x, q.y));
            }
        }
    }
    // Lipschitz: the position never moves farther than the arc length between two progress values
    let mut order: Vec<usize> = (0..ps.len()).collect();
    order.retain(|i| !dists[*i].is_nan());
    order.sort_by(|a, b| dists[*a].total_cmp(&dists[*b]));
    for w in order.windows(2) {
        out.oracle_checks += 1;
        let (a, b) = (w[0], w[1]);
        let arc = (dists[b] - dists[a]).abs();
        let moved = dist2(pos[a], pos[b]);
        if !(moved <= arc + slack) {
            fail(out, format!("between progress {:e} and {:e} the position moves {:e} but the arc length is {:e}", ps[a], ps[b], moved, arc));
        }
    }
    // at each vertex's cumulative length the position is that vertex
    for (j, (i, _)) in vf.iter().enumerate() {
        out.oracle_checks += 1;
        let q = pos[nvf_start + j];
        // duplicates: any vertex with that cumulative length
        let hit = (0..path.len()).any(|k| k < lens.len() && (lens[k] - lens[*i]).abs() <= 1e-9 * (1.0 + d) && dist2(q, path[k]) <= slack)
            || (*i < path.len() && dist2(q, path[*i]) <= slack);
        if *i < path.len() && !hit {
            fail(out, format!("position at the cumulative length of vertex {} is ({}, {}), the vertex is ({}, {})", i, q.x, q.y, path[*i].x, path[*i].y));
        }
    }
}

pub fn generate(tier: &str, seed: u64, out: &mut Out) {
    let mut r = Rng::new(seed ^ 0xC19);
    let thorough = tier == "thorough";
    // corpus
    for (mode, pts, len) in sliders_of(&osu_text(0, &[D11_LINE])) {
        run_case(&CurveCase { mode, pts, len }, &[], &mut r, out);
    }
    for mode in 0..2u8 {
        run_case(&CurveCase { mode, pts: vec![], len: None }, &[], &mut r, out);
        run_case(&CurveCase { mode, pts: vec![], len: Some(3.0) }, &[], &mut r, out);
    }
    // duplicate end (lengths one longer than the path), zero-length, duplicate vertices
    let z = |x: f32, y: f32, ty: u8| Cp { x, y, ty, deg: 0 };
    run_case(&CurveCase { mode: 1, pts: vec![z(0.0, 0.0, 3), z(4.0, 3.0, 0), z(4.0, 3.0, 0)], len: Some(9.0) }, &[], &mut r, out);
    run_case(&CurveCase { mode: 1, pts: vec![z(1.0, 1.0, 3), z(1.0, 1.0, 0), z(1.0, 1.0, 0)], len: None }, &[], &mut r, out);
    run_case(&CurveCase { mode: 1, pts: vec![z(1.0, 1.0, 3), z(1.0, 1.0, 0), z(5.0, 1.0, 0), z(5.0, 1.0, 0), z(5.0, 6.0, 0)], len: Some(7.0) }, &[0.4444444444444444], &mut r, out);

    // small grids, every layout of 2 and 3 points
    let g: Vec<i32> = if thorough { vec![-2, 0, 1, 3] } else { vec![0, 2] };
    let mut cnt = 0usize;
    for lay in all_layouts(3) {
        for &x1 in &g {
            for &y1 in &g {
                cnt += 1;
                if !thorough && cnt % 5 != 0 {
                    continue;
                }
                let pts = make(&[(0.0, 0.0), (x1 as f32, y1 as f32), (3.0, -1.0)], &lay);
                let natural = impl_curve(&CurveCase { mode: 1, pts: pts.clone(), len: None }).map_or(0.0, |c| c.dist());
                let classes = length_classes(natural);
                let (_, len) = classes[cnt % classes.len()];
                run_case(&CurveCase { mode: (cnt % 4) as u8, pts, len }, &[], &mut r, out);
            }
        }
    }
    // the C16/C17 generators
    let n = if thorough { 8000 } else { 1000 };
    for i in 0..n {
        let pts = random_points(&mut r, 12);
        let natural = impl_curve(&CurveCase { mode: 1, pts: pts.clone(), len: None }).map_or(0.0, |c| c.dist());
        let classes = length_classes(natural);
        let len = if i % 3 == 0 { None } else { classes[r.below(classes.len())].1 };
        let extra = [r.unit() * 1e-300, -r.unit(), 1.0 + r.unit()];
        run_case(&CurveCase { mode: r.below(4) as u8, pts, len }, &extra, &mut r, out);
    }
}

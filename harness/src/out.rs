//! Collects what one harness run produces for the `check` driver.
use crate::proto::json_str;
use std::collections::{BTreeMap, HashSet};
use std::fs;
use std::io::Write;
use std::path::Path;

pub struct Out {
    pub cases: Vec<String>,
    pub impl_res: Vec<String>,
    pub desc: Vec<String>,
    /// (known-finding class or "", description of the failing input, detail)
    pub oracle: Vec<(String, String, String)>,
    pub oracle_checks: u64,
    pub dist: BTreeMap<String, u64>,
    pub nontrivial: u64,
    pub rule: String,
    pub samples: Vec<String>,
    seen: HashSet<u64>,
    pub distinct: u64,
    pub distinct_nontrivial: u64,
}

fn fnv(s: &str) -> u64 {
    let mut h = 0xcbf2_9ce4_8422_2325u64;
    for b in s.bytes() {
        h ^= b as u64;
        h = h.wrapping_mul(0x1_0000_0001_b3);
    }
    h
}

impl Out {
    pub fn new(rule: &str) -> Self {
        Out {
            cases: vec![],
            impl_res: vec![],
            desc: vec![],
            oracle: vec![],
            oracle_checks: 0,
            dist: BTreeMap::new(),
            nontrivial: 0,
            rule: rule.to_string(),
            samples: vec![],
            seen: HashSet::new(),
            distinct: 0,
            distinct_nontrivial: 0,
        }
    }
    pub fn count(&mut self, key: &str) {
        *self.dist.entry(key.to_string()).or_insert(0) += 1;
    }
    pub fn count_n(&mut self, key: &str, n: u64) {
        *self.dist.entry(key.to_string()).or_insert(0) += n;
    }
    /// one correspondence case: model input line, implementation result line,
    /// human-readable description, and whether it is non-trivial by the rule
    pub fn case(&mut self, case: String, res: String, desc: String, nontrivial: bool) {
        if self.seen.insert(fnv(&case)) {
            self.distinct += 1;
            if nontrivial {
                self.distinct_nontrivial += 1;
            }
        }
        if nontrivial {
            self.nontrivial += 1;
        }
        if self.samples.len() < 6 && (self.cases.len() % 97 == 0) {
            self.samples.push(desc.clone());
        }
        self.cases.push(case);
        self.impl_res.push(res);
        self.desc.push(desc.replace('\n', "\\n"));
    }
    /// a property failure seen on the implementation by the independent oracle
    pub fn fail(&mut self, class: &str, input: &str, detail: &str) {
        // cap per class, so that known findings can never crowd out an unlisted failure
        let n = self.oracle.iter().filter(|(c, _, _)| c == class).count();
        let cap = if class.is_empty() { 300 } else { 40 };
        *self.dist.entry(format!("oracle_fail.{}", if class.is_empty() { "unlisted" } else { class })).or_insert(0) += 1;
        if n < cap {
            self.oracle.push((class.to_string(), input.replace('\n', "\\n"), detail.replace('\n', "\\n")));
        }
    }
    pub fn write(&self, dir: &Path) -> std::io::Result<()> {
        fs::create_dir_all(dir)?;
        fs::write(dir.join("cases.txt"), self.cases.join("\n") + "\n")?;
        fs::write(dir.join("impl.txt"), self.impl_res.join("\n") + "\n")?;
        fs::write(dir.join("desc.txt"), self.desc.join("\n") + "\n")?;
        let mut f = fs::File::create(dir.join("oracle.txt"))?;
        for (c, i, d) in &self.oracle {
            writeln!(f, "{}\t{}\t{}", c, i, d)?;
        }
        let mut s = String::from("{");
        s += &format!("\"evaluations\":{},", self.cases.len());
        s += &format!("\"distinct\":{},", self.distinct);
        s += &format!("\"distinct_nontrivial\":{},", self.distinct_nontrivial);
        s += &format!("\"oracle_checks\":{},", self.oracle_checks);
        s += &format!("\"oracle_failures\":{},", self.oracle.len());
        s += &format!("\"rule\":{},", json_str(&self.rule));
        s += "\"distribution\":{";
        s += &self
            .dist
            .iter()
            .map(|(k, v)| format!("{}:{}", json_str(k), v))
            .collect::<Vec<_>>()
            .join(",");
        s += "},\"samples\":[";
        s += &self.samples.iter().map(|x| json_str(x)).collect::<Vec<_>>().join(",");
        s += "]}";
        fs::write(dir.join("stats.json"), s)?;
        Ok(())
    }
}

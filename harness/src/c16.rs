//! C16: a slider's curve honours the requested pixel length -- cases,
//! implementation run, oracle.  Also the shared curve-case machinery
//! (control-point generators, case encoding, dumps) used by C17-C19.
use crate::out::Out;
use crate::proto::Line;
use crate::rng::Rng;
use crate::util::guarded;
use rosu_map::section::general::GameMode;
use rosu_map::section::hit_objects::{
    Curve, CurveBuffers, HitObjectKind, HitObjects, PathControlPoint, PathType, SplineType,
};
use rosu_map::util::Pos;
use std::num::NonZeroI32;

pub const RULE: &str = "a case is non-trivial when the computed path has at least 3 vertices, or a requested length triggers the cut/extension branch of calculate_length";

// ---------------------------------------------------------------------
// case representation
// ---------------------------------------------------------------------

/// type codes: 0 none, 1 catmull, 2 bspline (+degree), 3 linear, 4 perfect
#[derive(Clone, Copy, Debug, PartialEq)]
pub struct Cp {
    pub x: f32,
    pub y: f32,
    pub ty: u8,
    pub deg: i32,
}

#[derive(Clone, Debug)]
pub struct CurveCase {
    pub mode: u8,
    pub pts: Vec<Cp>,
    pub len: Option<f64>,
}

pub fn mode_of(m: u8) -> GameMode {
    match m {
        0 => GameMode::Osu,
        1 => GameMode::Taiko,
        2 => GameMode::Catch,
        _ => GameMode::Mania,
    }
}

pub fn to_points(pts: &[Cp]) -> Vec<PathControlPoint> {
    pts.iter()
        .map(|c| PathControlPoint {
            pos: Pos::new(c.x, c.y),
            path_type: match c.ty {
                1 => Some(PathType::CATMULL),
                2 => Some(match NonZeroI32::new(c.deg) {
                    Some(d) if c.deg > 0 => PathType::new_b_spline(d),
                    _ => PathType::BEZIER,
                }),
                3 => Some(PathType::LINEAR),
                4 => Some(PathType::PERFECT_CURVE),
                _ => None,
            },
        })
        .collect()
}

pub fn from_points(pts: &[PathControlPoint]) -> Vec<Cp> {
    pts.iter()
        .map(|p| {
            let (ty, deg) = match p.path_type {
                None => (0, 0),
                Some(t) => match t.kind {
                    SplineType::Catmull => (1, 0),
                    SplineType::BSpline => (2, t.degree.map_or(0, |d| d.get())),
                    SplineType::Linear => (3, 0),
                    SplineType::PerfectCurve => (4, 0),
                },
            };
            Cp { x: p.pos.x, y: p.pos.y, ty, deg }
        })
        .collect()
}

pub fn enc_pts(l: &mut Line, pts: &[Cp]) {
    l.u(pts.len() as u64);
    for c in pts {
        l.f32(c.x).f32(c.y).u(c.ty as u64).i(c.deg as i128);
    }
}
pub fn enc_len(l: &mut Line, len: Option<f64>) {
    match len {
        Some(v) => l.u(1).f64(v),
        None => l.u(0).u(0),
    };
}
pub fn dump_curve(l: &mut Line, path: &[Pos], lengths: &[f64]) {
    l.u(path.len() as u64);
    for p in path {
        l.f32(p.x).f32(p.y);
    }
    l.u(lengths.len() as u64);
    for v in lengths {
        l.f64(*v);
    }
}

pub fn describe(c: &CurveCase) -> String {
    let mut s = format!("mode={} len={:?} pts=[", c.mode, c.len);
    for p in &c.pts {
        let t = match p.ty {
            0 => String::new(),
            1 => "C".into(),
            2 => {
                if p.deg > 0 {
                    format!("B{}", p.deg)
                } else {
                    "B".into()
                }
            }
            3 => "L".into(),
            _ => "P".into(),
        };
        s += &format!("{}({},{}) ", t, p.x, p.y);
    }
    s + "]"
}

pub fn has_nan_inf(pts: &[Cp]) -> bool {
    pts.iter().any(|c| !c.x.is_finite() || !c.y.is_finite())
}
pub fn max_abs(pts: &[Cp]) -> f32 {
    pts.iter().fold(0.0f32, |m, c| m.max(c.x.abs()).max(c.y.abs()))
}
pub fn has_type(pts: &[Cp], ty: u8) -> bool {
    // the types that actually start a segment: the first point of every
    // segment; a trailing typed last point starts nothing
    let n = pts.len();
    pts.iter().enumerate().any(|(i, c)| c.ty == ty && (i + 1 < n || n == 1))
}

/// the implementation's curve for a case, with fresh buffers
pub fn impl_curve(c: &CurveCase) -> Result<Curve, String> {
    let pts = to_points(&c.pts);
    let mode = mode_of(c.mode);
    let len = c.len;
    guarded(move || Curve::new(mode, &pts, len, &mut CurveBuffers::default()))
}

// ---------------------------------------------------------------------
// generators
// ---------------------------------------------------------------------

#[derive(Clone, Copy, Debug, PartialEq)]
pub enum Coord {
    SmallInt,
    Playfield,
    Fractional,
    Large,
    Huge,
    Tiny,
}

pub fn coord(r: &mut Rng, k: Coord) -> (f32, f32) {
    match k {
        Coord::SmallInt => (r.range(-6, 6) as f32, r.range(-6, 6) as f32),
        Coord::Playfield => (r.range(0, 512) as f32, r.range(0, 384) as f32),
        Coord::Fractional => (
            (r.range(-2048, 2048) as f32) / 8.0 + if r.chance(1, 3) { 0.1 } else { 0.0 },
            (r.range(-1536, 1536) as f32) / 3.0,
        ),
        Coord::Large => (r.range(-4096, 4096) as f32, r.range(-4096, 4096) as f32),
        Coord::Huge => (r.range(-131072, 131072) as f32, r.range(-131072, 131072) as f32),
        Coord::Tiny => ((r.range(-1000, 1000) as f32) * 1e-4, (r.range(-1000, 1000) as f32) * 1e-4),
    }
}

#[derive(Clone, Copy, Debug, PartialEq)]
pub enum Shape {
    Free,
    Duplicates,
    Collinear,
    NearCollinear,
    AllSame,
}

/// positions of n control points
pub fn positions(r: &mut Rng, n: usize, k: Coord, s: Shape) -> Vec<(f32, f32)> {
    let mut v: Vec<(f32, f32)> = vec![];
    match s {
        Shape::Free => {
            for _ in 0..n {
                v.push(coord(r, k));
            }
        }
        Shape::Duplicates => {
            for i in 0..n {
                if i > 0 && r.chance(2, 5) {
                    let j = if r.chance(3, 4) { i - 1 } else { r.below(i) };
                    v.push(v[j]);
                } else {
                    v.push(coord(r, k));
                }
            }
        }
        Shape::Collinear | Shape::NearCollinear => {
            let a = coord(r, k);
            let d = coord(r, k);
            for i in 0..n {
                let t = if r.chance(1, 2) { i as f32 } else { r.range(-4, 8) as f32 };
                let mut p = (a.0 + d.0 * t * 0.25, a.1 + d.1 * t * 0.25);
                if s == Shape::NearCollinear && i % 2 == 1 {
                    let e = *r.pick(&[1e-3f32, 0.01, 0.25, 1.0, 3.0]);
                    p.1 += e;
                }
                v.push(p);
            }
        }
        Shape::AllSame => {
            let a = coord(r, k);
            for _ in 0..n {
                v.push(a);
            }
        }
    }
    v
}

/// a type layout over n points: the first point usually typed, inner points
/// typed with probability `inner`/8
pub fn layout(r: &mut Rng, n: usize, kinds: &[u8], inner: u32) -> Vec<(u8, i32)> {
    let mut v = vec![];
    for i in 0..n {
        let typed = if i == 0 { !r.chance(1, 8) } else { r.chance(inner, 8) };
        if typed {
            let ty = *r.pick(kinds);
            let deg = if ty == 2 && r.chance(1, 3) { r.range(1, 5) as i32 } else { 0 };
            v.push((ty, deg));
        } else {
            v.push((0, 0));
        }
    }
    v
}

pub fn make(pos: &[(f32, f32)], lay: &[(u8, i32)]) -> Vec<Cp> {
    pos.iter()
        .zip(lay)
        .map(|(&(x, y), &(ty, deg))| Cp { x, y, ty, deg })
        .collect()
}

/// rough cost of a case for the extracted model (arbitrary units ~ flops):
/// keeps deep Bezier subdivisions on large coordinates rare
pub fn too_expensive(pts: &[Cp], budget: usize) -> bool {
    let c = CurveCase { mode: 1, pts: pts.to_vec(), len: None };
    match impl_curve(&c) {
        Ok(cv) => {
            let n = pts.len().max(2);
            let bez = has_type(pts, 2) || has_type(pts, 4);
            let per = if bez { 12 * n } else { 30 };
            cv.path().len() * per > budget
        }
        Err(_) => false,
    }
}

/// random control-point list, 1..=maxn points, every layout
pub fn random_points(r: &mut Rng, maxn: usize) -> Vec<Cp> {
    loop {
        let n = match r.below(10) {
            0 => 1,
            1 | 2 => 2,
            3 | 4 => 3,
            5 => 4,
            _ => r.range(1, maxn as i64) as usize,
        };
        let k = *r.pick(&[
            Coord::SmallInt,
            Coord::Playfield,
            Coord::Playfield,
            Coord::Playfield,
            Coord::Fractional,
            Coord::Large,
            Coord::Tiny,
            Coord::Huge,
        ]);
        let s = *r.pick(&[
            Shape::Free,
            Shape::Free,
            Shape::Free,
            Shape::Duplicates,
            Shape::Collinear,
            Shape::NearCollinear,
            Shape::AllSame,
        ]);
        let kinds: &[u8] = if k == Coord::Huge { &[3, 4, 3, 1] } else { &[1, 2, 2, 3, 4, 4] };
        let pos = positions(r, n, k, s);
        let inner = *r.pick(&[0u32, 0, 1, 2, 4]);
        let lay = layout(r, n, kinds, inner);
        let pts = make(&pos, &lay);
        if !too_expensive(&pts, 60_000) {
            return pts;
        }
    }
}

/// the requested-length classes of the quantifier, relative to the natural length
pub fn length_classes(natural: f64) -> Vec<(&'static str, Option<f64>)> {
    let n = natural;
    vec![
        ("none", None),
        ("tiny", Some(1e-9)),
        ("tiny2", Some(0.001)),
        ("inside25", Some(n * 0.25)),
        ("inside70", Some(n * 0.7)),
        ("natural", Some(n)),
        ("nat+1e-16", Some(n + 1e-16)),
        ("nat-1e-16", Some(n - 1e-16)),
        ("nat+ulp", Some(f64::from_bits(n.to_bits().wrapping_add(1)))),
        ("nat-ulp", Some(f64::from_bits(n.to_bits().wrapping_sub(1)))),
        ("nat+1e-10", Some(n + 1e-10)),
        ("nat-1e-10", Some(n - 1e-10)),
        ("nat+1e-4", Some(n + 1e-4)),
        ("nat-1e-4", Some(n - 1e-4)),
        ("beyond", Some(n * 1.5 + 10.0)),
        ("huge", Some(1e9)),
        ("zero", Some(0.0)),
        ("negative", Some(-5.0)),
    ]
}

/// control points of every slider in a piece of .osu text (through the real decoder)
pub fn sliders_of(text: &str) -> Vec<(u8, Vec<Cp>, Option<f64>)> {
    let mut v = vec![];
    if let Ok(Ok(h)) = guarded(|| rosu_map::from_str::<HitObjects>(text)) {
        let mode = h.mode as u8;
        for o in &h.hit_objects {
            if let HitObjectKind::Slider(s) = &o.kind {
                v.push((mode, from_points(s.path.control_points()), s.path.expected_dist()));
            }
        }
    }
    v
}

pub const D11_LINE: &str = "121,199,1299,6,14,C|121:199|B|84:168|91:258,3,3.8";

pub fn osu_text(mode: u8, lines: &[&str]) -> String {
    format!(
        "osu file format v14\n\n[General]\nMode: {}\n\n[Difficulty]\nSliderMultiplier:1.4\n\n[TimingPoints]\n0,500,4,2,0,100,1,0\n\n[HitObjects]\n{}\n",
        mode,
        lines.join("\n")
    )
}

// ---------------------------------------------------------------------
// correspondence case + oracle
// ---------------------------------------------------------------------

pub fn case_line(c: &CurveCase) -> Line {
    let mut l = Line::entry("c16");
    l.u(c.mode as u64);
    enc_pts(&mut l, &c.pts);
    enc_len(&mut l, c.len);
    l
}

/// run one case: correspondence line + (optionally) the C16 oracle
pub fn run_case(c: &CurveCase, tag: &str, with_oracle: bool, out: &mut Out) {
    let line = case_line(c);
    let mut res = Line::new();
    let cur = impl_curve(c);
    let mut nontrivial = false;
    match &cur {
        Ok(cv) => {
            res.u(0);
            dump_curve(&mut res, cv.path(), cv.lengths());
            nontrivial = cv.path().len() >= 3;
        }
        Err(_) => {
            res.u(1);
        }
    }
    out.count(&format!("len:{}", tag));
    out.count(&format!("mode:{}", c.mode));
    out.count(&format!("npoints:{}", c.pts.len()));
    for t in 1..=4u8 {
        if has_type(&c.pts, t) {
            out.count(["", "seg:catmull", "seg:bspline", "seg:linear", "seg:perfect"][t as usize]);
        }
    }
    if with_oracle {
        if let Some(b) = oracle(c, &cur, out) {
            nontrivial |= b;
        }
        // the same request made of a slider path that was first read without a length
        // (what a decoded slider is when its length is edited afterwards)
        if let (Ok(cv), Some(_)) = (&cur, c.len) {
            let pts = to_points(&c.pts);
            let (mode, len) = (mode_of(c.mode), c.len);
            let via = guarded(move || {
                let mut sp = rosu_map::section::hit_objects::SliderPath::new(mode, pts, None);
                let _ = sp.curve().dist();
                *sp.expected_dist_mut() = len;
                let k = sp.curve();
                (k.path().to_vec(), k.lengths().to_vec())
            });
            out.oracle_checks += 1;
            if let Ok((p, l)) = via {
                let same = p.len() == cv.path().len()
                    && p.iter().zip(cv.path()).all(|(a, b)| a.x.to_bits() == b.x.to_bits() && a.y.to_bits() == b.y.to_bits())
                    && l.len() == cv.lengths().len()
                    && l.iter().zip(cv.lengths()).all(|(a, b)| a.to_bits() == b.to_bits() || (a.is_nan() && b.is_nan()));
                if !same {
                    out.fail("", &describe(c), "slider path read once without a length, then given the requested length: its curve is not the curve computed for that length");
                }
            }
        }
    }
    out.case(line.0, res.0, describe(c), nontrivial);
}

fn f64len(a: Pos, b: Pos) -> f64 {
    let dx = b.x as f64 - a.x as f64;
    let dy = b.y as f64 - a.y as f64;
    (dx * dx + dy * dy).sqrt()
}

/// The C16 property, checked on the implementation.  Returns Some(true) when
/// the cut/extension branch was exercised.
pub fn oracle(c: &CurveCase, cur: &Result<Curve, String>, out: &mut Out) -> Option<bool> {
    oracle_in(c, cur, out, "")
}

/// the same, for a curve computed in some context (e.g. with buffers used before):
/// `ctx` is prepended to the description of the failing input
pub fn oracle_in(c: &CurveCase, cur: &Result<Curve, String>, out: &mut Out, ctx: &str) -> Option<bool> {
    let d = format!("{}{}", ctx, describe(c));
    // quantifier: finite coordinates; IEEE statements narrowed to |coord| <= 2^60
    if has_nan_inf(&c.pts) || max_abs(&c.pts) > 1.0e18 {
        out.count("oracle:outside-quantifier(coords)");
        return None;
    }
    let cv = match cur {
        Ok(cv) => cv,
        Err(e) => {
            out.oracle_checks += 1;
            out.fail("", &d, &format!("panic: {}", e));
            return None;
        }
    };
    let natc = CurveCase { mode: c.mode, pts: c.pts.clone(), len: None };
    let nat = match impl_curve(&natc) {
        Ok(n) => n,
        Err(e) => {
            out.fail("", &d, &format!("panic without length: {}", e));
            return None;
        }
    };
    let osu_catmull = c.mode == 0 && has_type(&c.pts, 1);
    let path = cv.path();
    let lens = cv.lengths();
    let npath = nat.path();
    let nlens = nat.lengths();
    let natural = nat.dist();
    let d11 = |p: &[Pos]| p.last().map_or(false, |q| q.x.is_nan() || q.y.is_nan());

    // IEEE narrowing of "finite coordinates" (the other side of the 2^60 overflow bound): a
    // non-zero segment shorter than ~1e-18 has a squared length that underflows in f32, its
    // computed length is 0 and its direction cannot be normalised (witness: C16_underflow_witness)
    if npath.windows(2).any(|w| {
        let l = f64len(w[0], w[1]);
        l > 0.0 && l < 1e-18
    }) {
        out.count("oracle:outside-quantifier(underflow)");
        return None;
    }
    // D14: an ill-conditioned three-point perfect curve (nearly collinear or nearly coincident
    // points) puts non-finite vertices into the *unadjusted* path; everything downstream
    // (lengths, distance) is then non-finite as well
    if has_type(&c.pts, 4) && npath.iter().any(|p| !p.x.is_finite() || !p.y.is_finite()) {
        out.oracle_checks += 1;
        out.count("oracle:D14");
        if out.dist.get("oracle:D14").copied().unwrap_or(0) <= 25 {
            out.fail("D19", &d, "the unadjusted path of a perfect-curve segment has a non-finite vertex");
        }
        return None;
    }
    // cumulative lengths start at 0, never decrease beyond 1e-5, stay finite
    out.oracle_checks += 1;
    if lens.is_empty() || lens[0] != 0.0 {
        out.fail("", &d, "cumulative lengths do not start at 0");
    }
    let finite_req = c.len.map_or(true, |l| l.is_finite());
    if finite_req {
        for w in lens.windows(2) {
            if !(w[1] >= w[0] - 1e-5) {
                out.fail("", &d, &format!("cumulative lengths decrease: {} -> {}", w[0], w[1]));
                break;
            }
        }
        if lens.iter().any(|l| !l.is_finite()) {
            out.fail("", &d, "non-finite cumulative length");
        }
    }

    // hypothesis test for theorem T16d (coq/Proofs/LengthMono.v): outside the osu!-mode Catmull
    // simplification (zero seed) and with finite vertices in the unadjusted path the cumulative
    // lengths are non-decreasing EXACTLY (no slack) and never NaN / negative, for every requested
    // length.  Stricter than the property text, so it is recorded as a statistic, not as a failure
    // (a non-zero "contradicted" count would mean the model of calculate_length is wrong).
    if !osu_catmull && npath.iter().all(|p| p.x.is_finite() && p.y.is_finite()) {
        let exact = lens.windows(2).all(|w| w[1] >= w[0]) && lens.iter().all(|l| !l.is_nan() && !(*l < 0.0));
        out.count(if exact { "oracle:T16d-exact-monotone-holds" } else { "oracle:T16d-exact-monotone-contradicted" });
    }

    match c.len {
        None => {
            // the distance is the polyline's own length; the osu!-mode Catmull
            // simplification leaves the total unchanged
            out.oracle_checks += 1;
            let own: f64 = path.windows(2).map(|w| f64len(w[0], w[1])).sum();
            let tol = 1e-3 + 1e-6 * own.abs();
            if osu_catmull {
                let other = impl_curve(&CurveCase { mode: 1, pts: c.pts.clone(), len: None });
                if let Ok(o) = other {
                    let t2 = 1e-3 + 1e-5 * o.dist().abs();
                    if !((cv.dist() - o.dist()).abs() <= t2) {
                        out.fail("", &d, &format!("osu!-mode simplification changed the total length: {} vs {}", cv.dist(), o.dist()));
                    }
                    if !(own <= cv.dist() + tol) {
                        out.fail("", &d, &format!("simplified polyline longer than the distance: {} vs {}", own, cv.dist()));
                    }
                }
            } else if !((cv.dist() - own).abs() <= tol) {
                out.fail("", &d, &format!("distance {} is not the polyline length {}", cv.dist(), own));
            }
            if lens.len() != path.len().max(1) {
                out.fail("", &d, "lengths/path size mismatch without requested length");
            }
            Some(false)
        }
        Some(l) if l > 0.0 && l.is_finite() => {
            out.oracle_checks += 1;
            // stated exceptions: natural length is kept
            let single = npath.len() <= 1;
            let dup_end = npath.len() >= 2 && npath[npath.len() - 1] == npath[npath.len() - 2] && natural < l;
            if single || dup_end {
                out.count(if single { "oracle:exception-single-point" } else { "oracle:exception-duplicate-end" });
                if cv.dist().to_bits() != natural.to_bits() || path != npath {
                    out.fail("", &d, &format!("exception case does not keep the natural curve: dist {} natural {}", cv.dist(), natural));
                }
                return Some(false);
            }
            // the distance IS the requested length, bit for bit -- also when L is only an ulp or
            // less than f64::EPSILON away from the natural length (the class of the repaired D9)
            let diff = (natural - l).abs();
            if diff > 0.0 && diff < f64::EPSILON {
                out.count("oracle:within-epsilon-of-natural");
            }
            if cv.dist().to_bits() != l.to_bits() {
                out.fail("", &d, &format!("distance {:e} is not the requested {:e} (natural {:e})", cv.dist(), l, natural));
                return Some(false);
            }
            if natural.to_bits() == l.to_bits() {
                // nothing to adjust: the natural curve
                if path != npath {
                    out.fail("", &d, "requested == natural but the path changed");
                }
                return Some(false);
            }
            // the adjusted curve is the natural curve cut at L or extended
            out.oracle_checks += 1;
            if lens.len() != path.len() || path.len() < 2 || path.len() > npath.len() {
                out.fail("", &d, "adjusted curve has inconsistent sizes");
                return Some(true);
            }
            let k = path.len() - 1;
            let same_prefix = (0..k).all(|i| path[i].x.to_bits() == npath[i].x.to_bits() && path[i].y.to_bits() == npath[i].y.to_bits())
                && (0..k).all(|i| lens[i].to_bits() == nlens[i].to_bits());
            if !same_prefix {
                out.fail("", &d, "adjusted curve does not start with the natural curve");
                return Some(true);
            }
            // the segment the cut falls in
            let is_last = k == npath.len() - 1;
            if !(nlens[k - 1] < l && (is_last || nlens[k] >= l)) {
                out.fail("", &d, &format!("cut index {} is not the segment containing {:e}", k, l));
                return Some(true);
            }
            if !is_last {
                out.count("oracle:cut");
            } else if l > natural {
                out.count("oracle:extension");
            } else {
                out.count("oracle:cut-last");
            }
            let a = npath[k - 1];
            let b = npath[k];
            let seg = f64len(a, b);
            let want = l - nlens[k - 1];
            let p = path[k];
            if seg == 0.0 {
                // no direction: only reachable when the lengths carry a surplus
                if d11(path) && osu_catmull {
                    out.count("oracle:D11");
                    if out.dist.get("oracle:D11").copied().unwrap_or(0) <= 25 {
                        out.fail("D11", &d, &format!("cut lands in the zero-length segment {} -> end point ({}, {})", k, p.x, p.y));
                    }
                } else {
                    out.fail("", &d, "cut lands in a zero-length segment");
                }
                return Some(true);
            }
            let ex = a.x as f64 + (b.x as f64 - a.x as f64) / seg * want;
            let ey = a.y as f64 + (b.y as f64 - a.y as f64) / seg * want;
            let mag = (a.x.abs() as f64).max(a.y.abs() as f64).max(b.x.abs() as f64).max(b.y.abs() as f64).max(want.abs());
            let tol = 1e-3 + 4e-6 * mag;
            let err = ((p.x as f64 - ex).powi(2) + (p.y as f64 - ey).powi(2)).sqrt();
            if !(err <= tol) {
                out.fail("", &d, &format!("end point ({}, {}) is not at distance {:e} from vertex {} along its segment (expected ({}, {}), error {:e})", p.x, p.y, want, k - 1, ex, ey, err));
            }
            Some(true)
        }
        Some(_) => {
            out.count("oracle:outside-quantifier(length)");
            Some(false)
        }
    }
}

/// all type layouts over n points (each point: none, C, B, L, P)
pub fn all_layouts(n: usize) -> Vec<Vec<(u8, i32)>> {
    let mut v = vec![];
    let total = 5usize.pow(n as u32);
    for mut idx in 0..total {
        let mut l = vec![];
        for _ in 0..n {
            l.push(((idx % 5) as u8, 0));
            idx /= 5;
        }
        v.push(l);
    }
    v
}

/// A sequence of curves computed one after the other through ONE CurveBuffers
/// (what the decoder does for a whole map): correspondence entry `c16s`, and
/// the full C16 oracle on every curve of the sequence.
pub fn run_sequence(seq: &[CurveCase], out: &mut Out) {
    let mut line = Line::entry("c16s");
    line.u(seq.len() as u64);
    for c in seq {
        line.u(c.mode as u64);
        enc_pts(&mut line, &c.pts);
        enc_len(&mut line, c.len);
    }
    let mut res = Line::new();
    let mut bufs = CurveBuffers::default();
    let mut ctx = String::from("after, with the same CurveBuffers: ");
    let mut nontrivial = false;
    for (k, c) in seq.iter().enumerate() {
        let pts = to_points(&c.pts);
        let mode = mode_of(c.mode);
        let len = c.len;
        let b = &mut bufs;
        let cur = guarded(move || Curve::new(mode, &pts, len, b));
        match &cur {
            Ok(cv) => {
                res.u(0);
                dump_curve(&mut res, cv.path(), cv.lengths());
                nontrivial |= k > 0 && cv.path().len() >= 3;
            }
            Err(_) => {
                res.u(1);
            }
        }
        out.count("sequence:curves");
        let context = if k == 0 { String::new() } else { format!("{}| then ", ctx) };
        oracle_in(c, &cur, out, &context);
        if cur.is_err() {
            break;
        }
        ctx += &format!("[{}] ", describe(c));
    }
    out.count(&format!("sequence:length:{}", seq.len()));
    let desc = format!("sequence through one CurveBuffers: {}", seq.iter().map(describe).collect::<Vec<_>>().join(" ; "));
    out.case(line.0, res.0, desc, nontrivial);
}

fn ulps(x: f32, k: i32) -> f32 {
    f32::from_bits((x.to_bits() as i64 + k as i64) as u32)
}

/// paths whose last two control points are DISTINCT but only a few ulps apart
/// (magnitude < 2: closer than f32::EPSILON), next to exactly identical ones
pub fn near_duplicate_ends(r: &mut Rng, all: bool) -> Vec<Vec<Cp>> {
    let mut v = vec![];
    let bases = [0.5f32, 1.0, 1.5, 0.25, 0.75, 0.1, 1.9990234, -0.5, -1.25];
    for (bi, &b) in bases.iter().enumerate() {
        for (di, &(dx, dy)) in [(1, 0), (0, 1), (-1, 0), (2, -1), (3, 3), (0, 0)].iter().enumerate() {
            if !all && (bi + di) % 3 != 0 && !(bi == 0 && di == 0) {
                continue;
            }
            let y0 = if bi % 2 == 0 { 0.0f32 } else { 0.375 };
            let last = Cp { x: ulps(b, dx), y: if dy == 0 { y0 } else { ulps(if y0 == 0.0 { 0.625 } else { y0 }, dy) }, ty: 0, deg: 0 };
            let before = Cp { x: b, y: if dy == 0 { y0 } else if y0 == 0.0 { 0.625 } else { y0 }, ty: 0, deg: 0 };
            for ty in [3u8, 2, 1, 4] {
                // two points only, and with a leading far point
                let mut a = vec![before, last];
                a[0].ty = ty;
                v.push(a);
                let lead = Cp { x: r.range(-3, 3) as f32 * 0.5, y: r.range(1, 4) as f32 * 0.5, ty, deg: 0 };
                let mut c3 = vec![lead, before, last];
                if ty == 4 {
                    // a three-point perfect curve would be an arc: make the tail its own linear segment
                    c3[1].ty = 3;
                }
                v.push(c3);
            }
        }
    }
    v
}

pub fn generate(tier: &str, seed: u64, out: &mut Out) {
    let mut r = Rng::new(seed ^ 0xC16);
    let thorough = tier == "thorough";

    // ---- corpus: recorded findings first
    // D11 through the real decoder
    for (mode, pts, len) in sliders_of(&osu_text(0, &[D11_LINE])) {
        run_case(&CurveCase { mode, pts: pts.clone(), len }, "corpus", true, out);
        run_case(&CurveCase { mode: 1, pts, len }, "corpus", true, out);
    }
    // formerly D9 (repaired): requested length within 2.2e-16 of the natural one but different
    // from it -- the distance must be the requested length
    {
        let pts = vec![Cp { x: 0.0, y: 0.0, ty: 3, deg: 0 }, Cp { x: 1e-20, y: 0.0, ty: 0, deg: 0 }];
        run_case(&CurveCase { mode: 0, pts, len: Some(1e-17) }, "corpus", true, out);
        for ty in [2u8, 3] {
            let pts = vec![Cp { x: 0.0, y: 0.0, ty, deg: 0 }, Cp { x: 0.0, y: 1.0, ty: 0, deg: 0 }];
            for len in [0.9999999999999999, 1.0000000000000002, 1.0, 1.0 - 1e-16, 1.0 + 2e-16] {
                run_case(&CurveCase { mode: 0, pts: pts.clone(), len: Some(len) }, "corpus", true, out);
            }
        }
    }
    // D14: ill-conditioned three-point perfect curve -> NaN path, NaN lengths
    {
        let pts = vec![Cp { x: 95545.0, y: 61255.0, ty: 4, deg: 0 }, Cp { x: 152569.5, y: 20636.51, ty: 0, deg: 0 }, Cp { x: 152569.5, y: 20636.5, ty: 0, deg: 0 }];
        run_case(&CurveCase { mode: 2, pts: pts.clone(), len: None }, "corpus", true, out);
        run_case(&CurveCase { mode: 2, pts, len: Some(100.0) }, "corpus", true, out);
    }
    // empty list, single points
    for mode in 0..4u8 {
        run_case(&CurveCase { mode, pts: vec![], len: None }, "none", true, out);
        run_case(&CurveCase { mode, pts: vec![], len: Some(10.0) }, "beyond", true, out);
    }
    // overflow witness (outside the narrowed quantifier; correspondence only)
    {
        let pts = vec![Cp { x: 0.0, y: 0.0, ty: 3, deg: 0 }, Cp { x: 1e30, y: 0.0, ty: 0, deg: 0 }];
        run_case(&CurveCase { mode: 0, pts: pts.clone(), len: None }, "none", true, out);
        run_case(&CurveCase { mode: 0, pts, len: Some(100.0) }, "inside", true, out);
        let pts = vec![Cp { x: f32::NAN, y: 0.0, ty: 3, deg: 0 }, Cp { x: 1.0, y: f32::INFINITY, ty: 0, deg: 0 }, Cp { x: 3.0, y: 1.0, ty: 0, deg: 0 }];
        run_case(&CurveCase { mode: 0, pts: pts.clone(), len: None }, "none", true, out);
        run_case(&CurveCase { mode: 0, pts, len: Some(2.0) }, "inside", true, out);
    }
    // non-finite, subnormal and signed-zero coordinates through every segment kind
    // (outside the quantifier: correspondence only)
    {
        let inf = f32::INFINITY;
        let nan = f32::NAN;
        let sub = 1e-40f32;
        let specials: Vec<Vec<(f32, f32)>> = vec![
            vec![(0.0, 0.0), (inf, 1.0), (2.0, 3.0)],
            vec![(0.0, 0.0), (1.0, nan), (2.0, 3.0)],
            vec![(nan, nan), (nan, nan), (nan, nan)],
            vec![(0.0, 0.0), (-inf, inf), (5.0, 5.0), (7.0, 1.0)],
            vec![(sub, 0.0), (0.0, sub), (-sub, -sub)],
            vec![(0.0, -0.0), (-0.0, 0.0), (3.0, -0.0), (-0.0, 4.0)],
            vec![(1e6, -1e6), (-1e6, 1e6), (1e6, 1e6)],
            vec![(3.0e38, 0.0), (0.0, 3.0e38), (-3.0e38, 0.0)],
            vec![(1e19, 0.0), (0.0, 1e19), (1e19, 1e19), (5.0, 5.0)],
        ];
        let mut k = 0usize;
        for pos in &specials {
            for ty in [1u8, 2, 3, 4] {
                // huge finite coordinates make the Bezier subdivision explode: linear / Catmull / arcs only
                // (an infinite coordinate followed by two finite ones never becomes "flat": the real
                // loop runs until memory is exhausted -- observed with [(0,0) (-inf,inf) (5,5) (7,1)];
                // the model answers OutOfFuel.  Not generated.)
                let bez = ty == 2 || (ty == 4 && pos.len() != 3);
                if bez && (pos.iter().any(|p| p.0.is_finite() && p.0.abs() > 1e7) || (pos.len() > 3 && pos.iter().any(|p| p.0.is_infinite()))) {
                    continue;
                }
                let mut lay = vec![(0u8, 0i32); pos.len()];
                lay[0] = (ty, 0);
                let pts = make(pos, &lay);
                if too_expensive(&pts, 200_000) {
                    continue;
                }
                for len in [None, Some(2.5), Some(1e12)] {
                    k += 1;
                    out.count("source:special-coordinates");
                    run_case(&CurveCase { mode: (k % 2) as u8, pts: pts.clone(), len }, "special", true, out);
                }
            }
        }
    }
    // sliders of the bundled maps (realistic curves)
    {
        let maps = crate::util::bundled_maps();
        let mut all = vec![];
        for (_, bytes) in &maps {
            if let Ok(t) = std::str::from_utf8(bytes) {
                all.extend(sliders_of(t));
            }
        }
        let take = if thorough { 400 } else { 60 };
        let step = (all.len() / take.max(1)).max(1);
        for (i, (mode, pts, len)) in all.into_iter().enumerate() {
            if i % step != 0 || too_expensive(&pts, 100_000) {
                continue;
            }
            out.count("source:bundled-map-slider");
            run_case(&CurveCase { mode, pts: pts.clone(), len }, "map", true, out);
            if i % (4 * step) == 0 {
                run_case(&CurveCase { mode: (mode + 1) % 4, pts, len }, "map", true, out);
            }
        }
    }

    // ---- exhaustive integer grids for 2- and 3-point paths
    {
        // 2 points: first at the origin or off it, second on a grid; every layout; L classes
        let g: Vec<i32> = if thorough { (-3..=3).collect() } else { vec![-2, 0, 1, 3] };
        let lays2 = all_layouts(2);
        let mut cnt = 0usize;
        for &x in &g {
            for &y in &g {
                for lay in &lays2 {
                    let pos = [(0.0f32, 0.0f32), (x as f32, y as f32)];
                    let pts = make(&pos, lay);
                    let natural = impl_curve(&CurveCase { mode: 1, pts: pts.clone(), len: None }).map_or(0.0, |c| c.dist());
                    let classes = length_classes(natural);
                    for (ci, (tag, len)) in classes.iter().enumerate() {
                        // every class on a thinned set, the main ones everywhere
                        let main = matches!(*tag, "none" | "inside70" | "beyond" | "natural");
                        if !main && !thorough && (cnt + ci) % 7 != 0 {
                            continue;
                        }
                        let mode = ((cnt + ci) % 4) as u8;
                        out.count("source:grid2");
                        run_case(&CurveCase { mode, pts: pts.clone(), len: *len }, tag, true, out);
                    }
                    cnt += 1;
                }
            }
        }
        // 3 points on a grid
        let g3: Vec<i32> = if thorough { vec![-2, -1, 0, 1, 3] } else { vec![-1, 0, 2] };
        let lays3 = all_layouts(3);
        let mut cnt = 0usize;
        for &x1 in &g3 {
            for &y1 in &g3 {
                for &x2 in &g3 {
                    for &y2 in &g3 {
                        for (li, lay) in lays3.iter().enumerate() {
                            cnt += 1;
                            // quick: a third of the layouts per position, rotating
                            if !thorough && (li + cnt) % 9 != 0 {
                                continue;
                            }
                            let pos = [(0.0f32, 0.0f32), (x1 as f32, y1 as f32), (x2 as f32, y2 as f32)];
                            let pts = make(&pos, lay);
                            let natural = impl_curve(&CurveCase { mode: 1, pts: pts.clone(), len: None }).map_or(0.0, |c| c.dist());
                            let classes = length_classes(natural);
                            let pick = [0usize, 4, 14, (cnt % classes.len())];
                            for (j, &ci) in pick.iter().enumerate() {
                                if !thorough && j > 0 && (cnt + j) % 3 != 0 {
                                    continue;
                                }
                                let (tag, len) = classes[ci];
                                let mode = ((cnt + j) % 4) as u8;
                                out.count("source:grid3");
                                run_case(&CurveCase { mode, pts: pts.clone(), len }, tag, true, out);
                            }
                        }
                    }
                }
            }
        }
    }

    // ---- last two points distinct but a few ulps apart (closer than f32::EPSILON):
    // only *identical* end points are an exception to "distance == L"
    {
        let shapes = near_duplicate_ends(&mut r, thorough);
        for (i, pts) in shapes.iter().enumerate() {
            let natural = impl_curve(&CurveCase { mode: 1, pts: pts.clone(), len: None }).map_or(0.0, |c| c.dist());
            let lens = [None, Some(natural * 1.5 + 10.0), Some(natural + 1e-3), Some(1e9), Some(natural * 0.5), Some(natural + 1e-7)];
            for (j, len) in lens.iter().enumerate() {
                if !thorough && j >= 3 && (i + j) % 2 == 0 {
                    continue;
                }
                out.count("source:near-duplicate-end");
                run_case(&CurveCase { mode: ((i + j) % 4) as u8, pts: pts.clone(), len: *len }, "near-duplicate-end", true, out);
            }
        }
    }

    // ---- sequences of curves through ONE CurveBuffers (as the decoder does per map):
    // osu!-mode Catmull paths first, then every type / mode
    {
        let z = |x: f32, y: f32, ty: u8| Cp { x, y, ty, deg: 0 };
        let catmull = vec![z(0.0, 0.0, 1), z(40.0, 30.0, 0), z(80.0, -20.0, 0), z(120.0, 10.0, 0)];
        let line = vec![z(0.0, 0.0, 3), z(30.0, 40.0, 0)];
        let bez = vec![z(0.0, 0.0, 2), z(50.0, 50.0, 0), z(100.0, 0.0, 0)];
        let arc = vec![z(0.0, 0.0, 4), z(50.0, 50.0, 0), z(100.0, 0.0, 0)];
        // corpus: a Catmull curve in osu! mode, then plain curves without / with a requested length
        run_sequence(
            &[
                CurveCase { mode: 0, pts: catmull.clone(), len: None },
                CurveCase { mode: 0, pts: line.clone(), len: None },
                CurveCase { mode: 0, pts: line.clone(), len: Some(80.0) },
                CurveCase { mode: 0, pts: bez.clone(), len: Some(30.0) },
                CurveCase { mode: 1, pts: arc.clone(), len: None },
                CurveCase { mode: 0, pts: vec![], len: None },
                CurveCase { mode: 0, pts: catmull.clone(), len: Some(60.0) },
                CurveCase { mode: 0, pts: line.clone(), len: None },
            ],
            out,
        );
        let nseq = if thorough { 1500 } else { 220 };
        for i in 0..nseq {
            let hi = if r.chance(1, 4) { 9 } else { 5 };
            let n = r.range(2, hi) as usize;
            let mut seq = vec![];
            for k in 0..n {
                // the first curve: usually an osu!-mode Catmull path
                let want_catmull = (k == 0 && i % 4 != 3) || r.chance(1, 4);
                let pts = loop {
                    let p = if want_catmull {
                        let np = r.range(2, 6) as usize;
                        let kind = *r.pick(&[Coord::Playfield, Coord::Playfield, Coord::Fractional, Coord::SmallInt]);
                        let shape = *r.pick(&[Shape::Free, Shape::Free, Shape::Duplicates]);
                        let pos = positions(&mut r, np, kind, shape);
                        let mut lay = vec![(0u8, 0i32); np];
                        lay[0] = (1, 0);
                        make(&pos, &lay)
                    } else {
                        random_points(&mut r, 7)
                    };
                    if max_abs(&p) <= 5000.0 && !too_expensive(&p, 25_000) {
                        break p;
                    }
                };
                let mode = if want_catmull && r.chance(3, 4) { 0 } else { r.below(4) as u8 };
                let natural = impl_curve(&CurveCase { mode: 1, pts: pts.clone(), len: None }).map_or(0.0, |c| c.dist());
                let classes = length_classes(natural);
                let len = if r.chance(1, 2) { None } else { classes[r.below(classes.len())].1 };
                seq.push(CurveCase { mode, pts, len });
            }
            out.count("source:sequence");
            run_sequence(&seq, out);
        }
    }

    // ---- random control-point lists x length classes x modes
    let n_lists = if thorough { 4000 } else { 600 };
    for i in 0..n_lists {
        let pts = random_points(&mut r, 12);
        let natural = impl_curve(&CurveCase { mode: 1, pts: pts.clone(), len: None }).map_or(0.0, |c| c.dist());
        let classes = length_classes(natural);
        let mut picks = vec![0usize];
        let extra = if thorough { 5 } else { 3 };
        for _ in 0..extra {
            picks.push(r.below(classes.len()));
        }
        for (j, ci) in picks.into_iter().enumerate() {
            let (tag, len) = classes[ci];
            let mode = if j == 0 { (i % 4) as u8 } else { r.below(4) as u8 };
            out.count("source:random");
            run_case(&CurveCase { mode, pts: pts.clone(), len }, tag, true, out);
        }
        // requested length EXACTLY equal (bit for bit) to the cumulative length of a vertex of the
        // natural curve: duplicated vertices (repeated anchors, Catmull inner vertices) give runs of
        // equal cumulative lengths, and the cut must still be the natural prefix ending at that vertex
        for mode in [(i % 4) as u8, ((i + 1) % 4) as u8] {
            if let Ok(nat) = impl_curve(&CurveCase { mode, pts: pts.clone(), len: None }) {
                let ls = nat.lengths().to_vec();
                if ls.len() >= 3 {
                    for _ in 0..2 {
                        let k = 1 + r.below(ls.len() - 1);
                        if ls[k].is_finite() && ls[k] > 0.0 {
                            out.count("source:at-vertex-length");
                            run_case(&CurveCase { mode, pts: pts.clone(), len: Some(ls[k]) }, "at-vertex", true, out);
                        }
                    }
                }
            }
        }
        // a random fraction of the natural length, osu! mode (the D11 neighbourhood)
        if has_type(&pts, 1) {
            let f = r.unit();
            run_case(&CurveCase { mode: 0, pts: pts.clone(), len: Some(natural * f * f) }, "inside-random", true, out);
        }
    }
}

//! C09: I/O faults are surfaced — failing readers (schedule with a hard
//! error at a byte offset) and failing writers (schedule of accept counts,
//! zero-length writes, errors) around the real decode / encode.
use super::c08::{case_c08, code_of, decode_bytes, decode_sched, describe, diff_results, encode_text, impl_lines, kind_of, lf_cuts_utf16le, rand_sched, sample_of, short, texts, Ev, KIND_NAMES};
use crate::out::Out;
use crate::proto::Line;
use crate::rng::Rng;
use crate::util::{bundled_maps, guarded};
use rosu_map::Beatmap;
use std::io::{self, ErrorKind, Write};

// ---------------------------------------------------------------- writer

/// One event = the result of one call of `Write::write`.
#[derive(Clone, Copy, Debug, PartialEq)]
pub enum Wev {
    Accept(usize),
    Zero,
    Interrupted,
    Fail(u8),
}

/// A `Write` that follows an explicit schedule and logs what it is asked to
/// do; an exhausted schedule accepts everything.
pub struct SchedWriter<'a> {
    sched: &'a [Wev],
    next: usize,
    pub accepted: Vec<u8>,
    pub calls: usize,
    pub flush_calls: usize,
    pub failed: bool,
    pub calls_after_failure: usize,
    flush_err: Option<u8>,
}

impl<'a> SchedWriter<'a> {
    pub fn new(sched: &'a [Wev], flush_err: Option<u8>) -> Self {
        SchedWriter { sched, next: 0, accepted: vec![], calls: 0, flush_calls: 0, failed: false, calls_after_failure: 0, flush_err }
    }
    pub fn events_left(&self) -> usize {
        self.sched.len() - self.next
    }
}

impl Write for SchedWriter<'_> {
    fn write(&mut self, buf: &[u8]) -> io::Result<usize> {
        if self.failed {
            self.calls_after_failure += 1;
        }
        self.calls += 1;
        match self.sched.get(self.next) {
            None => {
                self.accepted.extend_from_slice(buf);
                Ok(buf.len())
            }
            Some(e) => {
                self.next += 1;
                match *e {
                    Wev::Accept(n) => {
                        let n = n.min(buf.len());
                        self.accepted.extend_from_slice(&buf[..n]);
                        Ok(n)
                    }
                    Wev::Zero => {
                        self.failed = true;
                        Ok(0)
                    }
                    Wev::Interrupted => Err(io::Error::new(ErrorKind::Interrupted, "scheduled interruption")),
                    Wev::Fail(k) => {
                        self.failed = true;
                        Err(io::Error::new(kind_of(k), "scheduled failure"))
                    }
                }
            }
        }
    }
    fn flush(&mut self) -> io::Result<()> {
        if self.failed {
            self.calls_after_failure += 1;
        }
        self.flush_calls += 1;
        match self.flush_err {
            None => Ok(()),
            Some(k) => {
                self.failed = true;
                Err(io::Error::new(kind_of(k), "scheduled flush failure"))
            }
        }
    }
}

/// records the buffers handed to `write` by a run against a writer that
/// accepts everything: the chunk sequence `ws` of the encoder
struct Recorder(Vec<Vec<u8>>);
impl Write for Recorder {
    fn write(&mut self, buf: &[u8]) -> io::Result<usize> {
        self.0.push(buf.to_vec());
        Ok(buf.len())
    }
    fn flush(&mut self) -> io::Result<()> {
        Ok(())
    }
}

fn case_c09w(flush_err: Option<u8>, sched: &[Wev], ws: &[Vec<u8>]) -> String {
    let mut l = Line::entry("c09w");
    l.i(flush_err.unwrap_or(0) as i128);
    l.i(sched.len() as i128);
    for e in sched {
        match *e {
            Wev::Accept(n) => l.i(n as i128),
            Wev::Interrupted => l.i(0),
            Wev::Zero => l.i(-7),
            Wev::Fail(k) => l.i(-(k as i128)),
        };
    }
    for c in ws {
        l.i(c.len() as i128);
        for b in c {
            l.i(*b as i128);
        }
    }
    l.0
}

/// What kind of fault is injected once `offset` bytes have been accepted.
#[derive(Clone, Copy, Debug, PartialEq)]
enum Fault {
    None,
    Error(u8),
    Zero,
    FlushError(u8),
}

/// Build the per-call schedule: the writer takes exactly `offset` bytes (in
/// whole calls, or in short writes of 1..=max_short bytes with optional
/// interruptions), then the fault.
fn writer_schedule(r: &mut Rng, ws: &[Vec<u8>], offset: usize, fault: Fault, short: usize, interrupts: bool) -> Vec<Wev> {
    let mut s = vec![];
    let mut taken = 0usize;
    'outer: for c in ws {
        let mut left = c.len();
        while left > 0 {
            if taken == offset && !matches!(fault, Fault::None | Fault::FlushError(_)) {
                break 'outer;
            }
            if interrupts && r.chance(1, 5) {
                s.push(Wev::Interrupted);
                continue;
            }
            let mut n = if short == 0 { left + r.below(3) } else { r.range(1, short as i64) as usize };
            if !matches!(fault, Fault::None | Fault::FlushError(_)) {
                n = n.min(offset - taken);
            }
            s.push(Wev::Accept(n));
            let t = n.min(left);
            left -= t;
            taken += t;
        }
    }
    match fault {
        Fault::Error(k) => s.push(Wev::Fail(k)),
        Fault::Zero => s.push(Wev::Zero),
        _ => {}
    }
    s
}

fn run_writer(out: &mut Out, name: &str, map: &Beatmap, ws: &[Vec<u8>], reference: &[u8], sched: &[Wev], flush_err: Option<u8>, expect: Fault, offset: usize, with_model: bool) {
    let mut m = map.clone();
    let mut w = SchedWriter::new(sched, flush_err);
    let res = guarded(|| m.encode(&mut w));
    let desc = format!("{name}: encode ({} bytes, {} write calls) into a writer with {:?} after {offset} bytes; schedule of {} events", reference.len(), ws.len(), expect, sched.len());
    if with_model {
        let mut l = Line::new();
        match &res {
            Ok(Ok(())) => {
                l.i(0);
            }
            Ok(Err(e)) => {
                l.i(1).i(code_of(e.kind()));
            }
            Err(_) => {
                l.i(2).i(0);
            }
        }
        l.i(w.accepted.len() as i128).i(w.calls as i128).i(w.events_left() as i128);
        out.case(case_c09w(flush_err, sched, ws), l.0, desc.clone(), ws.len() >= 3 && !sched.is_empty());
    }
    // oracle, from the property text
    out.oracle_checks += 1;
    let reached = match expect {
        Fault::None => false,
        Fault::Error(_) | Fault::Zero => offset < reference.len(),
        Fault::FlushError(_) => true,
    };
    match &res {
        Err(p) => out.fail("", &desc, &format!("encode panicked: {p}")),
        Ok(r) => {
            if reached {
                match r {
                    Ok(()) => out.fail("", &desc, "the writer failed / stopped accepting data but encode returned Ok"),
                    Err(e) => {
                        let want = match expect {
                            Fault::Error(k) | Fault::FlushError(k) => kind_of(k),
                            _ => ErrorKind::WriteZero,
                        };
                        if e.kind() != want {
                            out.fail("", &desc, &format!("encode returned {:?}, the writer reported {want:?}", e.kind()));
                        }
                    }
                }
                if w.calls_after_failure != 0 {
                    out.fail("", &desc, &format!("{} call(s) issued to the writer after its first failure", w.calls_after_failure));
                }
                if !reference.starts_with(&w.accepted) {
                    out.fail("", &desc, "bytes accepted before the failure are not a prefix of the encoding");
                }
            } else {
                match r {
                    Ok(()) => {
                        if w.accepted != reference {
                            out.fail("", &desc, "short writes / interruptions changed the bytes that reach the writer");
                        }
                        if w.flush_calls == 0 {
                            out.fail("", &desc, "encode returned Ok without flushing the writer");
                        }
                    }
                    Err(e) => out.fail("", &desc, &format!("no fault was injected but encode returned {:?}", e.kind())),
                }
            }
        }
    }
    out.count(match expect {
        Fault::None => "write.no_fault_short_writes",
        Fault::Error(_) => "write.error",
        Fault::Zero => "write.zero_length",
        Fault::FlushError(_) => "write.flush_error",
    });
}

fn write_side(out: &mut Out, r: &mut Rng, name: &str, map: &Beatmap, thorough: bool) {
    let mut m = map.clone();
    let mut rec = Recorder(vec![]);
    if m.encode(&mut rec).is_err() {
        return;
    }
    let ws = rec.0;
    let reference: Vec<u8> = ws.concat();
    let total = reference.len();
    let big = total > 3000;
    let offsets: Vec<usize> = if big {
        let n = if thorough { 60 } else { 12 };
        let mut v: Vec<usize> = (0..n).map(|_| r.below(total + 1)).collect();
        v.extend([0, 1, total - 1, total]);
        v
    } else {
        (0..=total).collect()
    };
    let mut model_budget: usize = if big { if thorough { 6 } else { 2 } } else { usize::MAX };
    for (i, &o) in offsets.iter().enumerate() {
        let k = (i % 5 + 1) as u8;
        let mut with_model = |rr: &mut Rng| {
            if big {
                if model_budget > 0 && rr.chance(1, 3) {
                    model_budget -= 1;
                    true
                } else {
                    false
                }
            } else {
                thorough || i % 29 == 0 || o <= 1 || o + 1 >= total
            }
        };
        // error at offset o: whole calls, then short writes with interruptions
        let s = writer_schedule(r, &ws, o, Fault::Error(k), 0, false);
        let wm = with_model(r);
        run_writer(out, name, map, &ws, &reference, &s, None, Fault::Error(k), o, wm);
        let s = writer_schedule(r, &ws, o, Fault::Error(k), 9, true);
        let wm = with_model(r);
        run_writer(out, name, map, &ws, &reference, &s, None, Fault::Error(k), o, wm);
        // the writer stops accepting data at offset o
        let s = writer_schedule(r, &ws, o, Fault::Zero, if i % 2 == 0 { 0 } else { 5 }, i % 4 == 1);
        let wm = with_model(r);
        run_writer(out, name, map, &ws, &reference, &s, None, Fault::Zero, o, wm);
    }
    // short writes and interruptions only; flush failure
    for j in 0..(if big { 2 } else { 6 }) {
        let s = writer_schedule(r, &ws, 0, Fault::None, [1, 2, 3, 7, 50, 1000][j % 6], j % 2 == 0);
        run_writer(out, name, map, &ws, &reference, &s, None, Fault::None, total, !big);
        let k = (j % 5 + 1) as u8;
        let s = writer_schedule(r, &ws, 0, Fault::FlushError(k), if j % 2 == 0 { 0 } else { 4 }, false);
        run_writer(out, name, map, &ws, &reference, &s, Some(k), Fault::FlushError(k), total, !big);
    }
}

// ---------------------------------------------------------------- reader

/// deliver exactly `o` bytes (one chunk, or random pieces, optionally with
/// interruptions), then fail with kind k
fn failing_schedule(r: &mut Rng, o: usize, k: u8, style: usize) -> Vec<Ev> {
    let mut s = vec![];
    match style {
        0 => {
            if o > 0 {
                s.push(Ev::Chunk(o));
            }
        }
        _ => {
            let mut left = o;
            while left > 0 {
                if style == 2 && r.chance(1, 4) {
                    s.push(Ev::Interrupted);
                    continue;
                }
                let n = (r.range(1, 40) as usize).min(left);
                s.push(Ev::Chunk(n));
                left -= n;
            }
            if style == 2 && r.chance(1, 2) {
                s.push(Ev::Interrupted);
            }
        }
    }
    s.push(Ev::Fail(k));
    s
}

fn read_fault(out: &mut Out, name: &str, enc: usize, data: &[u8], sched: &[Ev], k: u8, o: usize, with_model: bool) {
    let desc = format!("{} -- {} at byte offset {o}", describe(name, enc, data.len(), sched), KIND_NAMES[k as usize]);
    if with_model {
        out.case(case_c08(data, sched), impl_lines(data, sched), desc.clone(), o >= 3 && data[..o].contains(&b'\n'));
    }
    let got = decode_sched(data, sched);
    out.oracle_checks += 1;
    match &got {
        Ok(Err(e)) if e.kind() == kind_of(k) => {}
        other => out.fail("", &desc, &format!("reader failed with {:?} but decode returned {}", kind_of(k), short(other))),
    }
    out.count(&format!("read.fault.{}", KIND_NAMES[k as usize]));
}

pub const RULE: &str = "read side: bundled maps (every byte offset of the small ones, sampled offsets of the large ones; UTF-8 as bundled plus UTF-16 re-encodings of small ones) and generated texts, delivered through a schedule that hands out exactly o bytes (one chunk / random pieces / with Interrupted) and then fails with Other, UnexpectedEof, PermissionDenied, TimedOut or WouldBlock; single-byte delivery with the fault or Interrupted while read_bom holds 0..3 bytes, in the four encodings; UTF-16LE streams (complete, and cut right after the low byte of a line feed) whose reader fails, is interrupted or ends exactly at the read of the byte after the 0x0A; faultless schedules with random Interrupted; write side: Beatmap::encode of every decoded bundled map, generated maps and a compact map with every record kind and path-type spelling (all four modes, every output offset) into a writer that fails / returns Ok(0) after o accepted bytes (every o for small maps), with whole and short writes, Interrupted, flush failure; non-trivial = fault after at least one complete line (read) or at least 3 write calls with a non-empty schedule (write); distinct = distinct case lines";

pub fn generate(tier: &str, seed: u64, out: &mut Out) {
    let thorough = tier == "thorough";
    let mut r = Rng::new(seed ^ 0xC09);
    let all = texts(&mut r, if thorough { 60 } else { 12 });

    // ---- read side
    for (fi, (name, text)) in all.iter().enumerate() {
        let big = text.len() > 4096;
        let encs: &[usize] = if big { &[0] } else if fi % 3 == 0 || thorough { &[0, 1, 2, 3] } else { &[0] };
        for &enc in encs {
            let data = encode_text(text, enc);
            let len = data.len();
            let offsets: Vec<usize> = if big {
                let n = if thorough { 400 } else { 40 };
                let mut v: Vec<usize> = (0..n).map(|_| r.below(len + 1)).collect();
                v.extend([0, 1, 2, 3, len - 1, len]);
                v
            } else {
                (0..=len).collect()
            };
            let mut model_budget = if thorough { 12 } else { 3 };
            for (i, &o) in offsets.iter().enumerate() {
                for k in 1..=5u8 {
                    let style = (i + k as usize) % 3;
                    let s = failing_schedule(&mut r, o, k, style);
                    let with_model = if big {
                        if model_budget > 0 && k == 1 && i % 7 == 0 {
                            model_budget -= 1;
                            true
                        } else {
                            false
                        }
                    } else {
                        thorough || (i * 5 + k as usize) % 23 == 0 || ((o <= 3 || o + 1 >= len) && k as usize == i % 5 + 1)
                    };
                    read_fault(out, name, enc, &data, &s, k, o, with_model);
                }
            }
            // transient interruptions on faultless schedules do not change the outcome
            if !big || enc == 0 {
                let reference = decode_bytes(&data);
                for j in 0..(if big { 2 } else { 4 }) {
                    let s = rand_sched(&mut r, len, if j % 2 == 0 { 1 } else { 3 }, true);
                    let plain: Vec<Ev> = s.iter().copied().filter(|e| *e != Ev::Interrupted).collect();
                    if !big {
                        out.case(case_c08(&data, &s), impl_lines(&data, &s), describe(name, enc, len, &s), s.len() >= 2 && len >= 3);
                    }
                    let (a, b) = (decode_sched(&data, &s), decode_sched(&data, &plain));
                    out.oracle_checks += 2;
                    if let Some(d) = diff_results(&a, &b) {
                        out.fail("", &describe(name, enc, len, &s), &format!("Interrupted results changed the outcome: {d}"));
                    }
                    if let Some(d) = diff_results(&a, &reference) {
                        out.fail("", &describe(name, enc, len, &s), &format!("decode with Interrupted results vs from_bytes: {d}"));
                    }
                    if let Ok(Err(e)) = &a {
                        out.fail("", &describe(name, enc, len, &s), &format!("no fault was injected (Interrupted only) but decode returned {:?}", e.kind()));
                    }
                    out.count("read.interrupted_only");
                    let _ = j;
                }
            }
            // failures scheduled after the source reported EOF: correspondence
            // only (the property does not speak about them)
            if !big {
                for extra in [vec![Ev::Chunk(len.max(1)), Ev::Chunk(1), Ev::Fail(1)], vec![Ev::Chunk(len + 5), Ev::Chunk(1), Ev::Chunk(1), Ev::Fail(3)], vec![Ev::Chunk(len.max(1)), Ev::Interrupted, Ev::Chunk(2), Ev::Interrupted, Ev::Fail(4)]] {
                    out.case(case_c08(&data, &extra), impl_lines(&data, &extra), describe(name, enc, len, &extra), true);
                    out.count("read.fault_after_eof(correspondence only)");
                }
            }
        }
    }
    // the extra-byte read of read_line: after the low byte 0x0A of a UTF-16LE line feed the
    // decoder asks the reader once more (the loop that replaced read_exact in the repair of D6).
    // The reader fails / is interrupted / reports EOF exactly at that call.
    {
        let mut le_texts: Vec<(String, String)> = all.iter().filter(|(_, t)| t.len() <= 1500 && t.contains('\n')).take(if thorough { 20 } else { 3 }).cloned().collect();
        le_texts.push(("corpus".into(), "osu file format v14\n\n[Metadata]\nTitle:abc\n".into()));
        le_texts.push(("corpus-crlf".into(), "osu file format v14\r\n[Metadata]\r\nTitle:abc\r\nArtist:x".into()));
        for (name, text) in &le_texts {
            let full = encode_text(text, 2);
            let cuts = lf_cuts_utf16le(&full);
            let full_ref = decode_bytes(&full);
            for c in sample_of(&mut r, &cuts, if thorough { 10 } else { 2 }) {
                let cut = &full[..c];
                let cut_ref = decode_bytes(cut);
                for k in 1..=5u8 {
                    // hard failure at the extra-byte read, complete and cut stream
                    read_fault(out, name, 2, &full, &[Ev::Chunk(c), Ev::Fail(k)], k, c, true);
                    let split: Vec<Ev> = if c > 3 { vec![Ev::Chunk(3), Ev::Chunk(c - 3), Ev::Interrupted, Ev::Fail(k)] } else { vec![Ev::Chunk(c), Ev::Interrupted, Ev::Fail(k)] };
                    read_fault(out, name, 2, &full, &split, k, c, k == 1);
                    read_fault(out, &format!("{name} cut inside the line feed"), 2, cut, &[Ev::Chunk(c), Ev::Fail(k)], k, c, k == 2);
                    read_fault(out, &format!("{name} cut inside the line feed"), 2, cut, &[Ev::Chunk(c), Ev::Interrupted, Ev::Interrupted, Ev::Fail(k)], k, c, k == 3);
                    out.count("read.fault_at_extra_byte_read");
                }
                // Interrupted / EOF at the extra-byte read: no fault, so no error, and the outcome of from_bytes
                let cases: [(&[u8], &super::c08::MapResult, Vec<Ev>); 5] = [
                    (&full, &full_ref, vec![Ev::Chunk(c), Ev::Interrupted, Ev::Chunk(1), Ev::Chunk(full.len())]),
                    (&full, &full_ref, vec![Ev::Chunk(c), Ev::Interrupted, Ev::Interrupted, Ev::Interrupted, Ev::Chunk(5)]),
                    (cut, &cut_ref, vec![Ev::Chunk(c)]),
                    (cut, &cut_ref, vec![Ev::Chunk(c), Ev::Interrupted]),
                    (cut, &cut_ref, vec![Ev::Chunk(c), Ev::Interrupted, Ev::Interrupted, Ev::Chunk(1), Ev::Chunk(1)]),
                ];
                for (data, reference, s) in &cases {
                    let d = describe(name, 2, data.len(), s);
                    out.case(case_c08(data, s), impl_lines(data, s), d.clone(), true);
                    let got = decode_sched(data, s);
                    out.oracle_checks += 1;
                    if let Ok(Err(e)) = &got {
                        out.fail("", &d, &format!("no fault was injected (Interrupted / end of stream at the read of the byte after 0x0A) but decode returned {:?}", e.kind()));
                    } else if let Some(x) = diff_results(&got, reference) {
                        out.fail("", &d, &format!("Interrupted / end of stream at the read of the byte after 0x0A changed the outcome: {x}"));
                    }
                    out.count("read.interrupted_or_eof_at_extra_byte_read");
                }
            }
        }
    }
    // BOM sniffing: read_bom collects up to three bytes over as many chunks as it takes (the
    // repair of D4).  The reader fails or is interrupted while it has 0, 1 or 2 of them, and right
    // after the third; single-byte delivery up to the fault.
    {
        let text = "osu file format v14\n\n[Metadata]\nTitle:abc\n";
        for enc in 0..4usize {
            let data = encode_text(text, enc);
            let reference = decode_bytes(&data);
            for o in 0..=5usize {
                for k in 1..=5u8 {
                    let mut s: Vec<Ev> = vec![];
                    for i in 0..o {
                        if (i + k as usize) % 2 == 0 {
                            s.push(Ev::Interrupted);
                        }
                        s.push(Ev::Chunk(1));
                    }
                    s.push(Ev::Interrupted);
                    s.push(Ev::Fail(k));
                    read_fault(out, "bom-sniffing", enc, &data, &s, k, o, true);
                    out.count("read.fault_during_bom_sniffing");
                }
                // Interrupted only, at the same places: the outcome of from_bytes
                let mut s: Vec<Ev> = vec![];
                for _ in 0..o {
                    s.push(Ev::Interrupted);
                    s.push(Ev::Chunk(1));
                }
                s.push(Ev::Interrupted);
                s.push(Ev::Interrupted);
                s.push(Ev::Chunk(2));
                s.push(Ev::Chunk(data.len()));
                let d = describe("bom-sniffing", enc, data.len(), &s);
                out.case(case_c08(&data, &s), impl_lines(&data, &s), d.clone(), true);
                let got = decode_sched(&data, &s);
                out.oracle_checks += 1;
                if let Ok(Err(e)) = &got {
                    out.fail("", &d, &format!("no fault was injected (Interrupted during BOM sniffing) but decode returned {:?}", e.kind()));
                } else if let Some(x) = diff_results(&got, &reference) {
                    out.fail("", &d, &format!("Interrupted during BOM sniffing changed the outcome: {x}"));
                }
                out.count("read.interrupted_during_bom_sniffing");
            }
        }
    }
    // corpus: the smallest streams
    for data in [&b""[..], b"a", b"ab", b"\xFF\xFE", b"\xFF\xFE\n", b"\xFF\xFEa\0\n", b"\n", b"abc\n"] {
        for o in 0..=data.len() {
            for k in 1..=5u8 {
                let s = failing_schedule(&mut r, o, k, 0);
                read_fault(out, "corpus-short", 0, data, &s, k, o, true);
            }
        }
    }

    // ---- write side
    let mut maps: Vec<(String, Beatmap)> = vec![];
    for (name, bytes) in bundled_maps() {
        if let Ok(m) = rosu_map::from_bytes::<Beatmap>(&bytes) {
            maps.push((name, m));
        }
    }
    maps.push(("default".into(), Beatmap::default()));
    // a compact map with every record kind and every path-type spelling once, small enough for
    // every output offset to be exercised
    let all_kinds = "osu file format v14\n\n[General]\nAudioFilename: a.mp3\nAudioLeadIn: 5\nPreviewTime: 7\nCountdown: 2\nSampleSet: Soft\nStackLeniency: 0.3\nMode: 0\nLetterboxInBreaks: 1\nSpecialStyle: 1\nWidescreenStoryboard: 1\nEpilepsyWarning: 1\nSamplesMatchPlaybackRate: 1\nCountdownOffset: 3\n\n[Editor]\nBookmarks: 1,2\nDistanceSpacing: 1.5\n\n[Metadata]\nTitle:t\nBeatmapID:7\n\n[Events]\n0,0,\"bg.jpg\",0,0\n2,100,200\n\n[TimingPoints]\n0,400,4,2,1,60,1,0\n300,-50,4,1,0,70,0,1\n\n[Colours]\nCombo1 : 1,2,3\nSliderBorder : 4,5,6\n\n[HitObjects]\n10,20,100,1,0,0:0:0:0:\n10,20,300,2,0,B3|30:40|50:20|70:40,1,80\n10,20,500,6,2,B|30:40|50:20|50:20|70:40|L|90:40,2,120,2|0|2,0:0|1:2|0:0,0:0:0:0:\n10,20,900,2,0,P|30:40|50:20,1,50\n10,20,1100,2,0,C|30:40|50:20,1,50\n10,20,1300,2,0,B1|30:40,1,20\n256,192,1500,12,0,1700,0:0:0:0:\n64,192,1900,128,0,2000:1:2:3:40:hit.wav\n";
    for mode in 0..4 {
        if let Ok(m) = rosu_map::from_str::<Beatmap>(&all_kinds.replace("Mode: 0", &format!("Mode: {mode}"))) {
            maps.push((format!("all-kinds-mode{mode}"), m));
        }
    }
    for (name, text) in all.iter().filter(|(n, _)| n.starts_with("generated")).take(if thorough { 30 } else { 6 }) {
        if let Ok(m) = rosu_map::from_str::<Beatmap>(text) {
            maps.push((name.clone(), m));
        }
    }
    for (name, map) in &maps {
        write_side(out, &mut r, name, map, thorough);
    }
}

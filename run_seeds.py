#!/usr/bin/env python3
"""run_seeds.py [--tier quick] [--only Cxx-N ...] [--props Cxx,Cyy]
Runs every kept seeded change (seeded/<id>/patch.diff) against the check of the
property it targets (plus any extra properties given), in scratch copies so
/repo is never touched, several at a time.  Updates seeded/<id>/meta.json
("detected_by") and writes seeded/RESULTS.md."""
import concurrent.futures as cf
import json
import os
import re
import subprocess
import sys

ROOT = os.path.dirname(os.path.abspath(__file__))


def claimed():
    m = json.load(open(os.path.join(ROOT, "MANIFEST.json")))
    return {c["property_id"] for c in m["checks"]}


def run_one(seed, tier, props):
    d = os.path.join(ROOT, "seeded", seed)
    p = subprocess.run([os.path.join(ROOT, "seedtest_scratch.sh"), os.path.join(d, "patch.diff"), tier] + props,
                       stdout=subprocess.PIPE, stderr=subprocess.STDOUT, timeout=7200)
    out = p.stdout.decode("utf-8", "replace")
    res = {}
    for pr in props:
        if re.search(rf"^DETECTED {pr}:", out, flags=re.M):
            m = re.search(rf"^DETECTED {pr}: (.*)$", out, flags=re.M)
            res[pr] = "detected" + (" (no-failing-input-found)" if "no-failing-input-found" in m.group(1) else " (failing input)")
        elif re.search(rf"^MISSED {pr}", out, flags=re.M):
            res[pr] = "missed"
        else:
            res[pr] = "error"
    return seed, res, out


def main():
    tier = "quick"
    only = None
    extra = []
    a = sys.argv[1:]
    if "--tier" in a:
        tier = a[a.index("--tier") + 1]
    if "--only" in a:
        only = set(a[a.index("--only") + 1:])
    if "--props" in a:
        extra = a[a.index("--props") + 1].split(",")
    cl = claimed()
    seeds = sorted(s for s in os.listdir(os.path.join(ROOT, "seeded")) if os.path.isdir(os.path.join(ROOT, "seeded", s)))
    jobs = []
    for s in seeds:
        if only and s not in only:
            continue
        meta = json.load(open(os.path.join(ROOT, "seeded", s, "meta.json")))
        if meta.get("retired"):
            continue
        props = [p for p in [meta["property"]] + meta.get("also_check", []) + extra if p in cl]
        props = list(dict.fromkeys(props))
        if props:
            jobs.append((s, props))
    results = {}
    with cf.ThreadPoolExecutor(max_workers=3) as ex:
        futs = [ex.submit(run_one, s, tier, props) for s, props in jobs]
        for f in cf.as_completed(futs):
            s, res, out = f.result()
            results[s] = res
            print(s, res, flush=True)
            mp = os.path.join(ROOT, "seeded", s, "meta.json")
            meta = json.load(open(mp))
            db = meta.get("detected_by") or {}
            db.update({f"{k}/{tier}": v for k, v in res.items()})
            meta["detected_by"] = db
            meta["what_i_ran"] = f"seedtest_scratch.sh seeded/{s}/patch.diff {tier} " + " ".join(res)
            json.dump(meta, open(mp, "w"), indent=1)
            with open(os.path.join(ROOT, "seeded", s, "last_run.log"), "w") as fh:
                fh.write(out[-6000:])
    # summary table over all seeds
    lines = ["# Seeded changes and which checks catch them", "",
             "| seed | property | needs | result (check/tier) |", "|---|---|---|---|"]
    for s in seeds:
        meta = json.load(open(os.path.join(ROOT, "seeded", s, "meta.json")))
        need = (meta.get("needs_to_manifest") or "").replace("\n", " ").replace("|", "/")[:160]
        db = meta.get("detected_by") or {}
        # the target property's check, plus any other check that also catches the change
        shown = {k: v for k, v in db.items() if k.startswith(meta['property'] + "/") or v.startswith("detected")}
        lines.append(f"| {s} | {meta['property']} | {need} | " + "; ".join(f"{k}: {v}" for k, v in sorted(shown.items())) + " |")
    open(os.path.join(ROOT, "seeded", "RESULTS.md"), "w").write("\n".join(lines) + "\n")


if __name__ == "__main__":
    main()

#!/bin/sh
# store_seed.sh <Cxx> <N>  : verify /tmp/seed/Cxx/out/{patchN.diff,demoN.rs} and keep it as /verif/seeded/Cxx-N/
P="$1"; N="$2"; S="${3:-/tmp/seed/$P/out}"; M="${4:-$N}"; T=/verif/seeded/$P-$M
res=$(/verif/verify_seed.sh $S $N 2>&1 | tail -1)
case "$res" in
  *"clean_demo=[test result: ok"*"suite=[83 passed 0 failed]"*"mutated_demo=[test result: FAILED"*) ok=1;;
  # a change may add a unit test of its own inside src/
  *"clean_demo=[test result: ok"*"suite=[84 passed 0 failed]"*"mutated_demo=[test result: FAILED"*) ok=1;;
  *) ok=0;;
esac
if [ $ok -ne 1 ]; then echo "NOT CONFIRMED $P-$N: $res"; exit 1; fi
mkdir -p $T
cp $S/patch$N.diff $T/patch.diff; cp $S/demo$N.rs $T/demo.rs; cp $S/notes$N.md $T/notes.md 2>/dev/null
python3 - "$P" "$M" "$res" <<'PY'
import json,sys,re
p,n,res=sys.argv[1:4]
notes=open(f'/verif/seeded/{p}-{n}/notes.md').read() if True else ''
meta={"property":p,"seed":f"{p}-{n}","source":"independent sub-agent given only the property text and a scratch worktree of /repo",
 "needs_to_manifest":notes.strip().split('\n\n')[0][:600],
 "confirmed_by":"verify_seed.sh in a scratch worktree: demo passes on clean tree; with patch: cargo build (default and --features verif-hooks) ok, full cargo test suite 83 passed/0 failed, demo fails",
 "verify_output":res,"detected_by":None}
json.dump(meta,open(f'/verif/seeded/{p}-{n}/meta.json','w'),indent=1)
PY
echo "STORED $P-$M"

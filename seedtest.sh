#!/bin/sh
# seedtest.sh <patch.diff> <tier> <prop> [<prop>...]
# Applies a seeded change to /repo, runs the given checks, and restores /repo.
# Prints one line per property: DETECTED / MISSED.
patch="$1"; tier="$2"; shift 2
cd /repo || exit 2
if [ -n "$(git status --porcelain --untracked-files=no)" ]; then echo "/repo not clean"; exit 2; fi
git apply "$patch" || { echo "patch does not apply"; exit 2; }
trap 'git -C /repo checkout -- . ' EXIT INT TERM
cd /verif
for p in "$@"; do
  out=$(./check "$p" --tier "$tier" 2>&1); rc=$?
  if [ $rc -ne 0 ]; then
    echo "DETECTED $p: $(echo "$out" | grep '^VIOLATION' | head -1)"
    echo "$out" | grep -E "broken:|^$p " | head -4 | sed 's/^/    /' | cut -c1-400
  else
    echo "MISSED $p"
  fi
done

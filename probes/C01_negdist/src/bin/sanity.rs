// sanity: the mechanism itself (SliderEventsIter::new with negative total_dist) and overflow checks in the dep.
use rosu_map::section::hit_objects::{SliderEventsIter, SliderPath, HitObjectSlider};
use rosu_map::section::general::GameMode;
use rosu_map::util::Pos;
fn main() {
    std::panic::set_hook(Box::new(|i| eprintln!("   panic: {i}")));
    for d in [-1e-7f64, -0.0, f64::NAN, 0.0, -f64::MIN_POSITIVE * f64::EPSILON] {
        let r = std::panic::catch_unwind(|| {
            let mut t = Vec::new();
            SliderEventsIter::new(0.0, 1.0, 1.0, 5.0, d, 1, &mut t).count()
        });
        println!("total_dist={:e} [{:#018x}] -> {:?}", d, d.to_bits(), r.map_err(|_| "PANIC"));
    }
    let r = std::panic::catch_unwind(|| {
        let s = HitObjectSlider { pos: Pos::new(0.0, 0.0), new_combo: false, combo_offset: 0,
            path: SliderPath::new(GameMode::Osu, Vec::new(), None), node_samples: Vec::new(), repeat_count: i32::MAX, velocity: 1.0 };
        std::hint::black_box(&s).span_count()
    });
    println!("span_count with repeat_count=i32::MAX -> {:?} (PANIC expected only with overflow checks)", r.map_err(|_| "PANIC"));
}

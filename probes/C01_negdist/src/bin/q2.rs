// QUESTION 2: worst-case time of encode_to_string on a decoded map (slider ticks).
// usage: q2 <version> <mode> <slider_mult> <tick_rate> <inherited_beat_len|none> <red_beat_len> <repeats> <length|none> <nsliders> [timeout_s]
use rosu_map::section::hit_objects::{CurveBuffers, HitObjectKind, SliderEventType, SliderEventsIter};
use rosu_map::Beatmap;
use std::sync::mpsc;
use std::time::{Duration, Instant};

fn vm(key: &str) -> String {
    let s = std::fs::read_to_string("/proc/self/status").unwrap_or_default();
    s.lines()
        .find(|l| l.starts_with(key))
        .map(|l| l.split_whitespace().skip(1).collect::<Vec<_>>().join(" "))
        .unwrap_or_default()
}

fn main() {
    let a: Vec<String> = std::env::args().collect();
    let version: i32 = a[1].parse().unwrap();
    let mode: u8 = a[2].parse().unwrap();
    let sm = &a[3];
    let tr = &a[4];
    let inh = &a[5];
    let red = &a[6];
    let repeats = &a[7];
    let length = &a[8];
    let nsl: usize = a[9].parse().unwrap();
    let timeout: u64 = a.get(10).and_then(|s| s.parse().ok()).unwrap_or(120);

    let mut text = format!(
        "osu file format v{version}\n\n[General]\nMode: {mode}\n\n[Difficulty]\nSliderMultiplier:{sm}\nSliderTickRate:{tr}\n\n[TimingPoints]\n0,{red},4,1,0,100,1,0\n"
    );
    if inh != "none" {
        text.push_str(&format!("0,{inh},4,1,0,100,0,0\n"));
    }
    text.push_str("\n[HitObjects]\n");
    for i in 0..nsl {
        if length == "none" {
            text.push_str(&format!("0,0,{},2,0,L|131072:131072,{repeats}\n", i));
        } else {
            text.push_str(&format!("0,0,{},2,0,L|1:0,{repeats},{length}\n", i));
        }
    }
    println!("input bytes = {}", text.len());
    if nsl <= 2 {
        println!("---- input ----\n{text}---------------");
    }
    let t0 = Instant::now();
    let mut map: Beatmap = rosu_map::from_str(&text).expect("decode");
    println!("decode time = {:?}; VmHWM after decode = {}", t0.elapsed(), vm("VmHWM"));
    println!(
        "decoded: format_version={} mode={:?} slider_multiplier={} slider_tick_rate={} n_hit_objects={}",
        map.format_version,
        map.mode,
        map.slider_multiplier,
        map.slider_tick_rate,
        map.hit_objects.len()
    );
    // recompute what the encoder will use for the first slider
    {
        let fv = map.format_version;
        let tick_rate = map.slider_tick_rate;
        let smult = map.slider_multiplier;
        let cps = map.control_points.clone();
        let h = &mut map.hit_objects[0];
        let start = h.start_time;
        if let HitObjectKind::Slider(ref mut s) = h.kind {
            let beat_len = cps.timing_point_at(start).map_or(1000.0, |p| p.beat_len);
            let (sv, gen) = cps
                .difficulty_point_at(start)
                .map_or((1.0, true), |p| (p.slider_velocity, p.generate_ticks));
            let mult = if fv < 8 { sv.recip() } else { 1.0 };
            let tick_dist = if mode == 2 {
                100.0 * smult / tick_rate * mult
            } else if gen {
                s.velocity * beat_len / tick_rate * mult
            } else {
                f64::INFINITY
            };
            let mut bufs = CurveBuffers::default();
            let dist = s.path.curve_with_bufs(&mut bufs).dist();
            let span_count = s.span_count();
            let dur = s.duration_with_bufs(&mut bufs);
            println!(
                "slider[0]: beat_len={beat_len:e} slider_velocity={sv:e} generate_ticks={gen} velocity={:e} tick_dist(before clamp)={:e} [{:#018x}] dist={:e} span_count={} duration={:e}",
                s.velocity, tick_dist, tick_dist.to_bits(), dist, span_count, dur
            );
            let len = dist.min(100000.0);
            println!("len/tick_dist = {:e}", len / tick_dist);
            if mode == 0 || mode == 2 {
                let mut tb = Vec::new();
                let t = Instant::now();
                let n1 = SliderEventsIter::new(start, dur / f64::from(span_count), s.velocity, tick_dist, dist, 1, &mut tb)
                    .filter(|e| e.kind == SliderEventType::Tick)
                    .count();
                println!(
                    "ticks per span = {} (one-span iteration took {:?}); predicted total events per slider = {} ; total for {} sliders = {:e}",
                    n1,
                    t.elapsed(),
                    n1 as u64 * span_count as u64 + span_count as u64 + 2,
                    nsl,
                    (n1 as f64 * f64::from(span_count) + f64::from(span_count) + 2.0) * nsl as f64
                );
            }
        }
    }

    let (tx, rx) = mpsc::channel();
    let t1 = Instant::now();
    std::thread::spawn(move || {
        let r = std::panic::catch_unwind(std::panic::AssertUnwindSafe(|| map.encode_to_string().map(|s| s.len())));
        let _ = tx.send(match r {
            Ok(Ok(n)) => format!("encode ok, output bytes = {n}"),
            Ok(Err(e)) => format!("encode io error: {e}"),
            Err(_) => "encode PANIC".to_string(),
        });
    });
    match rx.recv_timeout(Duration::from_secs(timeout)) {
        Ok(msg) => println!("{msg}; encode wall time = {:?}; VmHWM = {}", t1.elapsed(), vm("VmHWM")),
        Err(_) => {
            println!(
                "WATCHDOG: encode still running after {timeout} s; VmRSS = {} VmHWM = {}",
                vm("VmRSS"),
                vm("VmHWM")
            );
            std::process::exit(3);
        }
    }
}

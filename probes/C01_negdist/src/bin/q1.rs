// QUESTION 1: can curve.dist() of a DECODED osu!-mode slider be strictly negative?
// Everything goes through the real decoder (rosu_map::from_str::<HitObjects>), in batches.
use rosu_map::section::hit_objects::{CurveBuffers, HitObjectKind, HitObjects};
use rosu_map::Beatmap;
use std::sync::{Arc, Mutex};

#[derive(Clone)]
struct Rng(u64);
impl Rng {
    fn next(&mut self) -> u64 {
        // splitmix64
        self.0 = self.0.wrapping_add(0x9E3779B97F4A7C15);
        let mut z = self.0;
        z = (z ^ (z >> 30)).wrapping_mul(0xBF58476D1CE4E5B9);
        z = (z ^ (z >> 27)).wrapping_mul(0x94D049BB133111EB);
        z ^ (z >> 31)
    }
    fn below(&mut self, n: u64) -> u64 {
        self.next() % n
    }
    fn range(&mut self, lo: i64, hi: i64) -> i64 {
        lo + (self.next() % ((hi - lo + 1) as u64)) as i64
    }
}

#[derive(Default, Clone)]
struct Stats {
    sliders: u64,
    decode_fail_batches: u64,
    neg_intermediate: u64, // some lengths()[i] (i>=1, not the last) strictly < 0
    neg_len1: u64,         // lengths()[1] strictly <0
    neg_final: u64,        // dist() strictly < 0
    negzero_final: u64,    // dist() == -0.0
    nan_final: u64,
    nan_any: u64,
    nonmonotone: u64, // lengths decreasing somewhere
    min_intermediate: f64,
    min_final: f64,
    min_opt_est: f64,
    neg_opt_est: u64,
    min_ratio: f64,
    ex_ratio: Option<(String, String)>,
    neg_inter_nonzero_first: u64,
    ex_nzf: Option<(String, String)>,
    zero_final: u64,
    single_c: u64,
    neg_inter_single_c: u64,
    ex_single_c: Option<(String, String)>,
    ex_intermediate: Option<(String, String)>, // (line, description) smallest text
    ex_most_neg: Option<(String, String)>,
    ex_final: Option<(String, String)>,
    ex_nan: Option<(String, String)>,
}

impl Stats {
    fn merge(&mut self, o: &Stats) {
        self.sliders += o.sliders;
        self.decode_fail_batches += o.decode_fail_batches;
        self.neg_intermediate += o.neg_intermediate;
        self.neg_len1 += o.neg_len1;
        self.neg_final += o.neg_final;
        self.negzero_final += o.negzero_final;
        self.nan_final += o.nan_final;
        self.nan_any += o.nan_any;
        self.nonmonotone += o.nonmonotone;
        self.neg_opt_est += o.neg_opt_est;
        self.neg_inter_nonzero_first += o.neg_inter_nonzero_first;
        self.zero_final += o.zero_final;
        self.single_c += o.single_c;
        self.neg_inter_single_c += o.neg_inter_single_c;
        if o.min_ratio < self.min_ratio { self.min_ratio = o.min_ratio; self.ex_ratio = o.ex_ratio.clone(); }
        if o.min_intermediate < self.min_intermediate {
            self.min_intermediate = o.min_intermediate;
            self.ex_most_neg = o.ex_most_neg.clone();
        }
        if o.min_final < self.min_final {
            self.min_final = o.min_final;
        }
        if o.min_opt_est < self.min_opt_est {
            self.min_opt_est = o.min_opt_est;
        }
        fn smaller(a: &mut Option<(String, String)>, b: &Option<(String, String)>) {
            if let Some(b) = b {
                if a.as_ref().map_or(true, |a| b.0.len() < a.0.len()) {
                    *a = Some(b.clone());
                }
            }
        }
        smaller(&mut self.ex_intermediate, &o.ex_intermediate);
        smaller(&mut self.ex_final, &o.ex_final);
        smaller(&mut self.ex_nan, &o.ex_nan);
        smaller(&mut self.ex_nzf, &o.ex_nzf);
        smaller(&mut self.ex_single_c, &o.ex_single_c);
    }
    fn print(&self, title: &str) {
        println!("==== {title} ====");
        println!(
            "sliders={} decode_fail_batches={} | (a) neg intermediate lengths[i]: {} (of which lengths[1]<0: {}) | (b) neg final dist: {} | -0.0 final: {} | NaN final: {} NaN any: {} | non-monotone lengths: {} | est. optimized_len<0: {}",
            self.sliders, self.decode_fail_batches, self.neg_intermediate, self.neg_len1, self.neg_final,
            self.negzero_final, self.nan_final, self.nan_any, self.nonmonotone, self.neg_opt_est
        );
        println!(
            "most negative intermediate = {:e} (bits {:#018x}); min final = {:e} (bits {:#018x}); min est. optimized_len = {:e}",
            self.min_intermediate, self.min_intermediate.to_bits(), self.min_final, self.min_final.to_bits(), self.min_opt_est
        );
        if let Some((l, d)) = &self.ex_intermediate {
            println!("smallest (a) example line: {l}\n   {d}");
        }
        if let Some((l, d)) = &self.ex_most_neg {
            println!("most-negative (a) example line: {l}\n   {d}");
        }
        if let Some((l, d)) = &self.ex_final {
            println!("(b) EXAMPLE line: {l}\n   {d}");
        }
        if let Some((l, d)) = &self.ex_nan {
            println!("NaN example line: {l}\n   {d}");
        }
        println!("(a) with path[0]!=path[1]: {} ; final == +0.0: {} ; min ratio opt_est/final (no expected len, final>0) = {:e}", self.neg_inter_nonzero_first, self.zero_final, self.min_ratio);
        if let Some((l, d)) = &self.ex_ratio { println!("min-ratio example line: {l}\n   {d}"); }
        println!("single-letter 'C' sliders: {} of which (a): {}", self.single_c, self.neg_inter_single_c);
        if let Some((l, d)) = &self.ex_single_c { println!("(a) single-C example line: {l}\n   {d}"); }
        if let Some((l, d)) = &self.ex_nzf { println!("(a)-with-nonzero-first-segment example line: {l}\n   {d}"); }
    }
}

fn new_stats() -> Stats {
    Stats {
        min_intermediate: f64::INFINITY,
        min_final: f64::INFINITY,
        min_opt_est: f64::INFINITY,
        min_ratio: f64::INFINITY,
        ..Default::default()
    }
}

fn header(mode: u8) -> String {
    format!("osu file format v14\n\n[General]\nMode: {mode}\n\n[HitObjects]\n")
}

fn full_text(mode: u8, line: &str) -> String {
    format!(
        "osu file format v14\n\n[General]\nMode: {mode}\n\n[Difficulty]\nSliderMultiplier:1.4\nSliderTickRate:1\n\n[TimingPoints]\n0,500,4,1,0,100,1,0\n\n[HitObjects]\n{line}\n"
    )
}

/// lines: slider lines WITHOUT time ordering issues: caller puts time = index.
fn check_batch(lines: &[String], st: &mut Stats, bufs: &mut CurveBuffers) {
    let mut text = header(0);
    for l in lines {
        text.push_str(l);
        text.push('\n');
    }
    let mut ho = match rosu_map::from_str::<HitObjects>(&text) {
        Ok(h) => h,
        Err(_) => {
            st.decode_fail_batches += 1;
            return;
        }
    };
    if ho.hit_objects.len() != lines.len() {
        st.decode_fail_batches += 1;
        return;
    }
    for (idx, h) in ho.hit_objects.iter_mut().enumerate() {
        let t = h.start_time as usize;
        assert_eq!(t, idx);
        let HitObjectKind::Slider(ref mut s) = h.kind else {
            continue;
        };
        st.sliders += 1;
        let has_expected = s.path.expected_dist().is_some();
        let curve = s.path.curve_with_bufs(bufs);
        let lens = curve.lengths();
        let path = curve.path();
        let fin = curve.dist();
        let n = lens.len();
        let mut neg_i = false;
        let mut min_i = f64::INFINITY;
        let mut nan = false;
        let mut nonmono = false;
        for i in 0..n {
            let v = lens[i];
            if v.is_nan() {
                nan = true;
            }
            if i >= 1 && i + 1 < n && v < 0.0 {
                neg_i = true;
                if v < min_i {
                    min_i = v;
                }
            }
            if i >= 1 && lens[i] < lens[i - 1] {
                nonmono = true;
            }
        }
        // estimate of optimized_len: lengths[1] - |path[1]-path[0]|  (only valid if not truncated by expected_len)
        let mut opt_est = f64::NAN;
        if n >= 3 && path.len() >= 2 {
            let d = f64::from(path[0].distance(path[1]));
            opt_est = lens[1] - d;
            if opt_est < 0.0 {
                st.neg_opt_est += 1;
            }
            if opt_est < st.min_opt_est {
                st.min_opt_est = opt_est;
            }
        }
        let describe = |lens: &[f64]| -> String {
            let show: Vec<String> = lens
                .iter()
                .take(6)
                .map(|v| format!("{:e}[{:#018x}]", v, v.to_bits()))
                .collect();
            format!(
                "n_lengths={} n_path={} first lengths={} ... final dist={:e}[{:#018x}] opt_est={:e}",
                lens.len(),
                path.len(),
                show.join(", "),
                fin,
                fin.to_bits(),
                opt_est
            )
        };
        if !has_expected && fin > 0.0 && opt_est.is_finite() {
            let ratio = opt_est / fin;
            if ratio < st.min_ratio { st.min_ratio = ratio; st.ex_ratio = Some((lines[t].clone(), describe(lens))); }
        }
        if fin == 0.0 && fin.is_sign_positive() { st.zero_final += 1; }
        if neg_i && path.len() >= 2 && path[0] != path[1] {
            st.neg_inter_nonzero_first += 1;
            if st.ex_nzf.as_ref().map_or(true, |e| lines[t].len() < e.0.len()) { st.ex_nzf = Some((lines[t].clone(), describe(lens))); }
        }
        let single_c = { let f: Vec<&str> = lines[t].split(',').collect(); f.len() > 5 && f[5].starts_with("C|") && f[5][1..].chars().all(|c| !c.is_ascii_alphabetic()) };
        if single_c { st.single_c += 1; if neg_i { st.neg_inter_single_c += 1; if st.ex_single_c.as_ref().map_or(true, |e| lines[t].len() < e.0.len()) { st.ex_single_c = Some((lines[t].clone(), describe(lens))); } } }
        if nan {
            st.nan_any += 1;
            if st.ex_nan.as_ref().map_or(true, |e| lines[t].len() < e.0.len()) {
                st.ex_nan = Some((lines[t].clone(), describe(lens)));
            }
        }
        if fin.is_nan() {
            st.nan_final += 1;
        }
        if nonmono {
            st.nonmonotone += 1;
        }
        if neg_i {
            st.neg_intermediate += 1;
            if n > 2 && lens[1] < 0.0 {
                st.neg_len1 += 1;
            }
            if st
                .ex_intermediate
                .as_ref()
                .map_or(true, |e| lines[t].len() < e.0.len())
            {
                st.ex_intermediate = Some((lines[t].clone(), describe(lens)));
            }
            if min_i < st.min_intermediate {
                st.min_intermediate = min_i;
                st.ex_most_neg = Some((lines[t].clone(), describe(lens)));
            }
        }
        if fin < 0.0 {
            st.neg_final += 1;
            if st.ex_final.as_ref().map_or(true, |e| lines[t].len() < e.0.len()) {
                st.ex_final = Some((lines[t].clone(), describe(lens)));
            }
        }
        if fin == 0.0 && fin.is_sign_negative() {
            st.negzero_final += 1;
        }
        if fin < st.min_final {
            st.min_final = fin;
        }
    }
}

fn e2e(line: &str) -> String {
    let text = full_text(0, line);
    let r = std::panic::catch_unwind(|| {
        let mut map: Beatmap = rosu_map::from_str(&text).expect("decode");
        map.encode_to_string().map(|s| s.len())
    });
    match r {
        Ok(Ok(n)) => format!("encode ok ({n} bytes)"),
        Ok(Err(e)) => format!("encode io error {e}"),
        Err(_) => "PANIC".to_string(),
    }
}

// ---------- generators ----------
fn coord(r: &mut Rng, style: u64) -> (i64, i64) {
    match style {
        0 => (r.range(0, 3), r.range(0, 3)),
        1 => (r.range(-3, 3), r.range(-3, 3)),
        2 => (r.range(-12, 12), r.range(-12, 12)),
        3 => (r.range(-100, 100), r.range(-100, 100)),
        4 => (r.range(-512, 512), r.range(-512, 512)),
        5 => {
            // huge
            let pick = |r: &mut Rng| match r.below(4) {
                0 => 131072,
                1 => -131072,
                2 => r.range(-131072, 131072),
                _ => r.range(131060, 131072),
            };
            (pick(r), pick(r))
        }
        6 => {
            // collinear on x-axis
            (r.range(-8, 8), 0)
        }
        7 => {
            let a = r.range(-8, 8);
            (a, a)
        }
        _ => (r.range(-3, 3), r.range(-3, 3)),
    }
}

fn gen_random_line(r: &mut Rng, time: usize) -> String {
    // slider position
    let (px, py): (i64, i64) = match r.below(6) {
        0 => (0, 0),
        1 => (256, 192),
        2 => (131072, 131072),
        3 => (-131072, 131072),
        4 => (r.range(-131072, 131072), r.range(-131072, 131072)),
        _ => (r.range(0, 512), r.range(0, 384)),
    };
    let nseg = match r.below(10) {
        0..=5 => 1,
        6..=8 => 2,
        _ => 3 + r.below(3),
    };
    let mut path = String::new();
    let base_style = r.below(9);
    let mut cur = (px, py);
    let clampc = |v: i64| v.clamp(-131072, 131072);
    for s in 0..nseg {
        // last segment always C; earlier ones random with C bias
        let letter = if s + 1 == nseg {
            'C'
        } else {
            match r.below(6) {
                0 => 'B',
                1 => 'L',
                2 => 'P',
                _ => 'C',
            }
        };
        if s > 0 {
            path.push('|');
        }
        path.push(letter);
        let npts = if letter == 'C' { 1 + r.below(6) } else { 1 + r.below(4) };
        for _ in 0..npts {
            let style = if r.below(5) == 0 { r.below(9) } else { base_style };
            let (dx, dy) = coord(r, style);
            let p = match r.below(8) {
                0 => cur,                                     // repeated point
                1 => (clampc(px + dx), clampc(py + dy)),      // relative to slider pos
                _ => (clampc(cur.0 + dx), clampc(cur.1 + dy)), // relative step
            };
            let p = if style == 5 { (clampc(dx), clampc(dy)) } else { p };
            cur = p;
            path.push_str(&format!("|{}:{}", p.0, p.1));
        }
    }
    let len = match r.below(10) {
        0..=4 => String::new(),
        5 => format!(",{}", [0.001, 0.5, 1.0, 3.0, 7.5][r.below(5) as usize]),
        6 => format!(",{}", r.range(1, 200)),
        7 => format!(",{}", r.range(1, 131072)),
        8 => ",131072".to_string(),
        _ => format!(",{}", (r.below(100000) as f64) / 1000.0 + 0.0001),
    };
    format!("{px},{py},{time},2,0,{path},1{len}")
}

fn run_random(total: u64, threads: u64, seed: u64) -> Stats {
    let agg = Arc::new(Mutex::new(new_stats()));
    let per = total / threads;
    let mut hs = vec![];
    for t in 0..threads {
        let agg = agg.clone();
        hs.push(std::thread::spawn(move || {
            let mut r = Rng(seed.wrapping_mul(1000003).wrapping_add(t * 7919 + 1));
            let mut st = new_stats();
            let mut bufs = CurveBuffers::default();
            let batch = 1000usize;
            let mut done = 0u64;
            while done < per {
                let lines: Vec<String> = (0..batch).map(|i| gen_random_line(&mut r, i)).collect();
                check_batch(&lines, &mut st, &mut bufs);
                done += batch as u64;
            }
            agg.lock().unwrap().merge(&st);
        }));
    }
    for h in hs {
        h.join().unwrap();
    }
    let s = agg.lock().unwrap().clone();
    s
}

/// exhaustive: Catmull with n control points (first is slider pos (0,0)), other coords in [lo,hi]^2,
/// optionally prefixed by a zero-length linear part ("L|0:0|C|0:0|...").
fn run_exhaustive(n: usize, lo: i64, hi: i64, prefix: &str, threads: u64) -> Stats {
    let w = (hi - lo + 1) as u64;
    let per_pt = w * w;
    let total = per_pt.pow((n - 1) as u32);
    let agg = Arc::new(Mutex::new(new_stats()));
    let mut hs = vec![];
    let prefix = prefix.to_string();
    for t in 0..threads {
        let agg = agg.clone();
        let prefix = prefix.clone();
        hs.push(std::thread::spawn(move || {
            let mut st = new_stats();
            let mut bufs = CurveBuffers::default();
            let mut lines: Vec<String> = Vec::with_capacity(1000);
            let mut k = t;
            while k < total {
                let mut c = k;
                let mut path = String::from(prefix.as_str());
                for _ in 0..(n - 1) {
                    let p = c % per_pt;
                    c /= per_pt;
                    let x = lo + (p % w) as i64;
                    let y = lo + (p / w) as i64;
                    path.push_str(&format!("|{x}:{y}"));
                }
                lines.push(format!("0,0,{},2,0,{},1", lines.len(), path));
                if lines.len() == 1000 {
                    check_batch(&lines, &mut st, &mut bufs);
                    lines.clear();
                }
                k += threads;
            }
            if !lines.is_empty() {
                check_batch(&lines, &mut st, &mut bufs);
            }
            agg.lock().unwrap().merge(&st);
        }));
    }
    for h in hs {
        h.join().unwrap();
    }
    let s = agg.lock().unwrap().clone();
    s
}

/// long catmull paths: many control points -> thousands of chunks
fn gen_long_line(r: &mut Rng, time: usize) -> String {
    let npts = 20 + r.below(400);
    let step = [1i64, 2, 3, 5, 7, 13, 40, 100, 300, 2000][r.below(10) as usize];
    let (px, py) = (0i64, 0i64);
    let mut cur = (0i64, 0i64);
    let mut path = String::new();
    let clampc = |v: i64| v.clamp(-131072, 131072);
    // optional prefix
    match r.below(5) {
        0 => path.push_str("L|0:0|0:0|0:0|C"),
        1 => path.push_str("B|0:0|0:0|C"),
        2 => path.push_str("B|1:0|0:1|C"),
        3 => path.push_str("L|131072:131072|0:0|C"),
        _ => path.push('C'),
    }
    if path.len() > 1 {
        path.push_str("|0:0");
    }
    let mode = r.below(5);
    for i in 0..npts {
        let p = match mode {
            0 => (clampc(cur.0 + r.range(-step, step)), clampc(cur.1 + r.range(-step, step))),
            1 => (clampc(cur.0 + step), cur.1),                       // collinear
            2 => (if i % 2 == 0 { step } else { 0 }, 0),              // back-tracking
            3 => (clampc(cur.0 + step), clampc(cur.1 + step)),        // diagonal
            _ => {
                if r.below(4) == 0 {
                    cur
                } else {
                    (clampc(cur.0 + r.range(-step, step)), clampc(cur.1 + r.range(0, step)))
                }
            }
        };
        cur = p;
        path.push_str(&format!("|{}:{}", p.0, p.1));
    }
    let len = match r.below(4) {
        0 => format!(",{}", r.range(1, 131072)),
        _ => String::new(),
    };
    format!("{px},{py},{time},2,0,{path},1{len}")
}

fn run_long(total: u64, threads: u64, seed: u64) -> Stats {
    let agg = Arc::new(Mutex::new(new_stats()));
    let per = total / threads;
    let mut hs = vec![];
    for t in 0..threads {
        let agg = agg.clone();
        hs.push(std::thread::spawn(move || {
            let mut r = Rng(seed.wrapping_mul(77777).wrapping_add(t * 104729 + 3));
            let mut st = new_stats();
            let mut bufs = CurveBuffers::default();
            let batch = 50usize;
            let mut done = 0u64;
            while done < per {
                let lines: Vec<String> = (0..batch).map(|i| gen_long_line(&mut r, i)).collect();
                check_batch(&lines, &mut st, &mut bufs);
                done += batch as u64;
            }
            agg.lock().unwrap().merge(&st);
        }));
    }
    for h in hs {
        h.join().unwrap();
    }
    let s = agg.lock().unwrap().clone();
    s
}


fn eval_ratio(pts: &[(i64, i64)], prefix: &str, bufs: &mut CurveBuffers) -> (f64, f64, f64, String) {
    let mut path = String::from(prefix);
    for p in pts {
        path.push_str(&format!("|{}:{}", p.0, p.1));
    }
    let line = format!("0,0,0,2,0,{path},1");
    let text = format!("{}{}\n", header(0), line);
    let mut ho = rosu_map::from_str::<HitObjects>(&text).unwrap();
    let HitObjectKind::Slider(ref mut s) = ho.hit_objects[0].kind else { unreachable!() };
    let c = s.path.curve_with_bufs(bufs);
    let fin = c.dist();
    let (l, p) = (c.lengths(), c.path());
    if l.len() < 3 || !(fin > 0.0) {
        return (f64::INFINITY, fin, 0.0, line);
    }
    let opt = l[1] - f64::from(p[0].distance(p[1]));
    (opt / fin, fin, opt, line)
}

fn run_climb(threads: u64, iters: u64, seed: u64) {
    let best = Arc::new(Mutex::new((f64::INFINITY, 0.0f64, 0.0f64, String::new(), f64::INFINITY)));
    let mut hs = vec![];
    for t in 0..threads {
        let best = best.clone();
        hs.push(std::thread::spawn(move || {
            let mut r = Rng(seed * 31 + t * 1000003 + 17);
            let mut bufs = CurveBuffers::default();
            let mut evals = 0u64;
            while evals < iters {
                let n = 1 + r.below(6) as usize;
                let span = [3i64, 8, 30, 200, 131072][r.below(5) as usize];
                let prefix = ["C", "L|0:0|C|0:0", "B|0:0|0:0|C|0:0"][r.below(3) as usize];
                let mut pts: Vec<(i64, i64)> = (0..n).map(|_| (r.range(-span, span), r.range(-span, span))).collect();
                let (mut cur, mut fin, mut opt, mut line) = eval_ratio(&pts, prefix, &mut bufs);
                evals += 1;
                let mut stale = 0;
                while stale < 200 && evals < iters {
                    let i = r.below(n as u64) as usize;
                    let old = pts[i];
                    let d = [1i64, 1, 1, 2, 5, 50][r.below(6) as usize];
                    pts[i] = ((old.0 + r.range(-d, d)).clamp(-131072, 131072), (old.1 + r.range(-d, d)).clamp(-131072, 131072));
                    let (v, f, o, l) = eval_ratio(&pts, prefix, &mut bufs);
                    evals += 1;
                    if v < cur {
                        cur = v; fin = f; opt = o; line = l; stale = 0;
                    } else {
                        pts[i] = old; stale += 1;
                    }
                    if f < 0.0 { println!("NEGATIVE FINAL {f:e} line {}", line); }
                }
                let mut b = best.lock().unwrap();
                if cur < b.0 { *b = (cur, fin, opt, line.clone(), b.4); }
                if fin < b.4 && fin > 0.0 { b.4 = fin; }
            }
        }));
    }
    for h in hs { h.join().unwrap(); }
    let b = best.lock().unwrap();
    println!("==== hill-climb minimizing optimized_len/final: threads={threads} evals/thread={iters} ====");
    println!("min ratio = {:e}  (final = {:e} [{:#018x}], opt_est = {:e})\n line: {}", b.0, b.1, b.1.to_bits(), b.2, b.3);
}


fn run_huge() {
    let mut bufs = CurveBuffers::default();
    let mut r = Rng(99);
    let mut st = new_stats();
    let mut worst = (f64::INFINITY, String::new());
    for case in 0..400u64 {
        let n = [200usize, 1000, 3000, 6000][(case % 4) as usize];
        let kind = (case / 4) % 6;
        let (px, py): (i64, i64) = if case % 3 == 0 { (-131072, -131072) } else { (0, 0) };
        let amp = [7i64, 13, 61, 300, 2000, 131072][r.below(6) as usize];
        let mut path = String::from(["C", "L|{P}|C|{P}", "B|{P}|{P}|C|{P}"][(case % 3) as usize]).replace("{P}", &format!("{px}:{py}"));
        for i in 0..n as i64 {
            let (x, y) = match kind {
                0 => (if i % 2 == 0 { amp } else { 0 }, (i * 7) % 131072),
                1 => ((i * amp) % 131072, (i * amp) % 131072),
                2 => (r.range(0, amp), r.range(0, amp)),
                3 => (if i % 2 == 0 { 131072 } else { 131072 - amp }, if i % 3 == 0 { 131072 } else { 131072 - (i % 7) }),
                4 => ((i * amp) % 131072, 0),
                _ => (r.range(-amp, amp).clamp(-131072, 131072), r.range(-amp, amp).clamp(-131072, 131072)),
            };
            path.push_str(&format!("|{}:{}", (px + x).clamp(-131072, 131072), (py + y).clamp(-131072, 131072)));
        }
        let line = format!("{px},{py},0,2,0,{path},1");
        let before = st.sliders;
        check_batch(&[line.clone()], &mut st, &mut bufs);
        assert_eq!(st.sliders, before + 1);
        if st.min_opt_est < worst.0 {
            worst = (st.min_opt_est, format!("case {case} n={n} kind={kind} amp={amp} pos=({px},{py}) prefix#{}", case % 3));
        }
    }
    st.ex_intermediate = None; st.ex_most_neg = st.ex_most_neg.map(|(l, d)| (format!("<{} bytes>", l.len()), d)); st.ex_ratio = st.ex_ratio.map(|(l, d)| (format!("<{} bytes>", l.len()), d)); st.ex_nzf = None;
    st.print("huge catmull sliders (200..6000 control points)");
    println!("worst optimized_len from: {}", worst.1);
}

fn report_e2e(st: &Stats) {
    for (name, ex) in [
        ("smallest (a)", &st.ex_intermediate),
        ("most negative (a)", &st.ex_most_neg),
        ("(b)", &st.ex_final),
        ("NaN", &st.ex_nan),
    ] {
        if let Some((l, _)) = ex {
            println!("  e2e {name}: {} -> {}", l, e2e(l));
        }
    }
}

fn main() {
    let args: Vec<String> = std::env::args().collect();
    let what = args.get(1).map(String::as_str).unwrap_or("all");
    let threads = 16;
    std::panic::set_hook(Box::new(|_| {}));

    if what == "one" {
        // print details about one line
        let line = &args[2];
        let mut st = new_stats();
        let mut bufs = CurveBuffers::default();
        let text = format!("{}{}\n", header(0), line);
        let mut ho = rosu_map::from_str::<HitObjects>(&text).unwrap();
        for h in ho.hit_objects.iter_mut() {
            if let HitObjectKind::Slider(ref mut s) = h.kind {
                println!("control points: {:?}", s.path.control_points());
                println!("expected: {:?}", s.path.expected_dist());
                let c = s.path.curve_with_bufs(&mut bufs);
                println!("path ({}): {:?}", c.path().len(), c.path());
                for (i, v) in c.lengths().iter().enumerate() {
                    println!("lengths[{i}] = {:e} [{:#018x}]", v, v.to_bits());
                }
                println!("dist = {:e} [{:#018x}]", c.dist(), c.dist().to_bits());
            }
        }
        println!("e2e: {}", e2e(line));
        println!("full text:\n{}", full_text(0, line));
        return;
    }

    if what == "all" || what == "exh" {
        for (n, lo, hi) in [(2usize, -8i64, 8i64), (3, -6, 6), (4, -3, 3), (4, 0, 5), (5, 0, 3), (5, -2, 2), (6, 0, 2), (6, -1, 1)] {
            for prefix in ["C", "L|0:0|C|0:0", "B|0:0|0:0|C|0:0", "L|1:0|C|1:0"] {
                let st = run_exhaustive(n, lo, hi, prefix, threads);
                st.print(&format!("exhaustive n={n} coords in [{lo},{hi}] prefix '{prefix}'"));
                report_e2e(&st);
            }
        }
    }
    if what == "all" || what == "rand" {
        let total: u64 = args.get(2).and_then(|s| s.parse().ok()).unwrap_or(20_000_000);
        let seed: u64 = args.get(3).and_then(|s| s.parse().ok()).unwrap_or(1);
        let st = run_random(total, threads, seed);
        st.print(&format!("random small sliders total={total} seed={seed}"));
        report_e2e(&st);
    }
    if what == "huge" {
        run_huge();
    }
    if what == "climb" {
        let iters: u64 = args.get(2).and_then(|s| s.parse().ok()).unwrap_or(200_000);
        run_climb(threads, iters, 5);
    }
    if what == "all" || what == "long" {
        let total: u64 = args.get(2).and_then(|s| s.parse().ok()).unwrap_or(200_000);
        let seed: u64 = args.get(3).and_then(|s| s.parse().ok()).unwrap_or(1);
        let st = run_long(total, threads, seed);
        st.print(&format!("long catmull sliders total={total} seed={seed}"));
        report_e2e(&st);
    }
}

// QUESTION 3: random fuzz of small generated .osu texts: decode + encode (+ re-decode + re-encode) under catch_unwind.
// usage: q3 <iterations_per_thread> <threads> <seed>
use rosu_map::section::hit_objects::{CurveBuffers, HitObjectKind};
use rosu_map::Beatmap;
use std::cell::RefCell;
use std::collections::HashMap;
use std::sync::{Arc, Mutex};

#[derive(Clone)]
struct Rng(u64);
impl Rng {
    fn next(&mut self) -> u64 {
        self.0 = self.0.wrapping_add(0x9E3779B97F4A7C15);
        let mut z = self.0;
        z = (z ^ (z >> 30)).wrapping_mul(0xBF58476D1CE4E5B9);
        z = (z ^ (z >> 27)).wrapping_mul(0x94D049BB133111EB);
        z ^ (z >> 31)
    }
    fn below(&mut self, n: u64) -> u64 {
        self.next() % n
    }
    fn range(&mut self, lo: i64, hi: i64) -> i64 {
        lo + (self.next() % ((hi - lo + 1) as u64)) as i64
    }
    fn pick<'a, T>(&mut self, v: &'a [T]) -> &'a T {
        &v[self.below(v.len() as u64) as usize]
    }
    fn chance(&mut self, n: u64) -> bool {
        self.below(n) == 0
    }
}

thread_local! {
    static LAST_PANIC: RefCell<String> = RefCell::new(String::new());
}

fn num(r: &mut Rng) -> String {
    match r.below(22) {
        0 => "0".into(),
        1 => "-0".into(),
        2 => "1".into(),
        3 => "-1".into(),
        4 => format!("{}", r.range(-600, 600)),
        5 => format!("{}", r.range(0, 512)),
        6 => format!("{}.{}", r.range(-100, 1000), r.below(1000)),
        7 => "2147483647".into(),
        8 => "-2147483648".into(),
        9 => "-2147483647".into(),
        10 => "131072".into(),
        11 => "-131072".into(),
        12 => "NaN".into(),
        13 => "inf".into(),
        14 => "-inf".into(),
        15 => "1e-300".into(),
        16 => "1e9".into(),
        17 => format!("{}e{}", r.range(-9, 9), r.range(-12, 9)),
        18 => "".into(),
        19 => format!(" {} ", r.range(0, 100)),
        20 => "9000".into(),
        _ => format!("{}", r.range(0, 100000)),
    }
}

fn small_time(r: &mut Rng) -> String {
    match r.below(8) {
        0 => num(r),
        1 => format!("{}", r.range(-1000, 1000)),
        2 => format!("{}.5", r.range(0, 5000)),
        _ => format!("{}", r.range(0, 20000)),
    }
}

fn coord(r: &mut Rng) -> String {
    match r.below(10) {
        0 => num(r),
        1 => format!("{}", r.pick(&[131072i64, -131072, 131071, 0, 1, -1])),
        2 => format!("{}", r.range(-131072, 131072)),
        3 => format!("{}.{}", r.range(0, 512), r.below(100)),
        _ => format!("{}", r.range(0, 512)),
    }
}

fn path_str(r: &mut Rng) -> String {
    let nseg = match r.below(8) {
        0..=4 => 1,
        5 | 6 => 2,
        _ => 3 + r.below(3),
    };
    let mut s = String::new();
    let mut last = (coord(r), coord(r));
    for k in 0..nseg {
        if k > 0 {
            s.push('|');
        }
        let letter = match r.below(12) {
            0 | 1 => "B".to_string(),
            2 | 3 => "L".to_string(),
            4 | 5 => "P".to_string(),
            6 | 7 => "C".to_string(),
            8 => format!("B{}", r.range(-2, 6)),
            9 => r.pick(&["b", "X", "Bx", "B2147483648", "LL", "c"]).to_string(),
            10 => "P".to_string(),
            _ => "C".to_string(),
        };
        s.push_str(&letter);
        let np = match r.below(8) {
            0 => 0,
            1..=3 => 1,
            4 | 5 => 2,
            6 => 3,
            _ => 4 + r.below(6),
        };
        for _ in 0..np {
            let p = if r.chance(5) { last.clone() } else { (coord(r), coord(r)) };
            last = p.clone();
            s.push('|');
            match r.below(30) {
                0 => s.push_str(&p.0),
                1 => s.push_str(&format!("{}:{}:{}", p.0, p.1, p.0)),
                2 => s.push_str(""),
                _ => s.push_str(&format!("{}:{}", p.0, p.1)),
            }
        }
    }
    s
}

fn extras(r: &mut Rng) -> String {
    match r.below(6) {
        0 => String::new(),
        1 => format!("{}:{}:{}:{}:", r.range(0, 4), r.range(0, 4), r.range(0, 10), r.range(0, 100)),
        2 => format!("{}:{}:{}:{}:hit.wav", r.range(0, 3), r.range(0, 3), r.range(0, 3), r.range(0, 100)),
        3 => format!("{}:{}", r.range(0, 3), r.range(0, 3)),
        4 => format!("{}:{}:{}:{}:", num(r), num(r), num(r), num(r)),
        _ => "0:0:0:0:".into(),
    }
}

fn hit_object(r: &mut Rng, big_ok: bool) -> String {
    let x = coord(r);
    let y = coord(r);
    let t = small_time(r);
    let hs = match r.below(6) {
        0 => num(r),
        _ => format!("{}", r.range(0, 15)),
    };
    let combo_bits = if r.chance(3) { (r.below(8) << 4) | (r.below(2) << 2) } else { 0 } as i64;
    match r.below(10) {
        0 | 1 => format!("{x},{y},{t},{},{hs},{}", 1 | combo_bits, extras(r)),
        2 => format!("{x},{y},{t},{},{hs},{},{}", 8 | combo_bits, small_time(r), extras(r)),
        3 => format!("{x},{y},{t},{},{hs},{}:{}", 128 | combo_bits, small_time(r), extras(r)),
        4 => {
            // odd type values
            let ty = match r.below(6) {
                0 => num(r),
                1 => "-1".into(),
                2 => "2147483647".into(),
                3 => "-2147483648".into(),
                4 => format!("{}", r.range(0, 255)),
                _ => "0".into(),
            };
            format!("{x},{y},{t},{ty},{hs},{},{},{}", path_str(r), r.range(0, 5), r.range(0, 300))
        }
        _ => {
            let repeats = match r.below(12) {
                0 => num(r),
                1 => {
                    if big_ok {
                        "9000".to_string()
                    } else {
                        "90".to_string()
                    }
                }
                2 => "0".into(),
                3 => "-5".into(),
                4 => format!("{}", r.range(1, 60)),
                _ => format!("{}", r.range(1, 4)),
            };
            let mut s = format!("{x},{y},{t},{},{hs},{},{repeats}", 2 | combo_bits, path_str(r));
            if r.chance(6) {
                return s;
            }
            let len = match r.below(8) {
                0 => num(r),
                1 => "0".into(),
                2 => format!("{}", r.range(1, 2000)),
                3 => format!("{}.{}", r.range(0, 300), r.below(100000)),
                _ => format!("{}", r.range(1, 400)),
            };
            s.push_str(&format!(",{len}"));
            if r.chance(2) {
                return s;
            }
            // edge sounds
            let n = r.below(5);
            let es: Vec<String> = (0..n).map(|_| format!("{}", r.range(0, 15))).collect();
            s.push_str(&format!(",{}", es.join("|")));
            if r.chance(3) {
                return s;
            }
            let n = r.below(5);
            let es: Vec<String> = (0..n).map(|_| format!("{}:{}", r.range(0, 3), r.range(0, 3))).collect();
            s.push_str(&format!(",{}", es.join("|")));
            if r.chance(3) {
                return s;
            }
            s.push_str(&format!(",{}", extras(r)));
            s
        }
    }
}

fn timing_point(r: &mut Rng) -> String {
    let t = small_time(r);
    let bl = match r.below(14) {
        0 => num(r),
        1 => "NaN".into(),
        2 => format!("-{}", r.range(1, 2000)),
        3 => "-10".into(),
        4 => "-1000".into(),
        5 => "-100".into(),
        6 => format!("{}.{}", r.range(1, 2000), r.below(1000000)),
        7 => "6".into(),
        8 => "0.0001".into(),
        9 => "-0.0001".into(),
        _ => format!("{}", r.range(100, 1000)),
    };
    let nfields = r.below(8);
    let mut s = format!("{t},{bl}");
    let fields = [
        format!("{}", r.range(0, 8)),
        format!("{}", r.range(0, 4)),
        format!("{}", r.range(0, 5)),
        format!("{}", r.range(0, 120)),
        format!("{}", r.range(0, 1)),
        format!("{}", r.range(0, 15)),
    ];
    for i in 0..(nfields.min(6) as usize) {
        s.push(',');
        if r.chance(15) {
            s.push_str(&num(r));
        } else {
            s.push_str(&fields[i]);
        }
    }
    s
}

fn mutate_line(r: &mut Rng, line: &str) -> String {
    let mut b: Vec<char> = line.chars().collect();
    let alphabet: Vec<char> = "0123456789-.,:|eENaBLPC \t/\u{feff}".chars().collect();
    let n = 1 + r.below(3);
    for _ in 0..n {
        if b.is_empty() {
            break;
        }
        let i = r.below(b.len() as u64) as usize;
        match r.below(5) {
            0 => {
                b[i] = *r.pick(&alphabet);
            }
            1 => {
                b.remove(i);
            }
            2 => {
                b.insert(i, *r.pick(&alphabet));
            }
            3 => {
                // duplicate a token
                let j = (i + 1 + r.below(6) as usize).min(b.len());
                let tok: Vec<char> = b[i..j].to_vec();
                for (k, c) in tok.into_iter().enumerate() {
                    b.insert(j + k, c);
                }
            }
            _ => {
                b.truncate(i);
            }
        }
    }
    b.into_iter().collect()
}

fn gen_text(r: &mut Rng) -> String {
    let mut lines: Vec<String> = Vec::new();
    match r.below(12) {
        0 => {}
        1 => lines.push(format!("osu file format v{}", r.pick(&[0i64, 1, 2, 15, 128, 2147483647, -1]))),
        _ => lines.push(format!("osu file format v{}", r.range(3, 14))),
    }
    lines.push(String::new());
    let mode = r.below(4);
    lines.push("[General]".into());
    if !r.chance(8) {
        if r.chance(10) {
            lines.push(format!("Mode: {}", num(r)));
        } else {
            lines.push(format!("Mode: {mode}"));
        }
    }
    if r.chance(3) {
        lines.push(format!("SampleSet: {}", r.pick(&["Normal", "Soft", "Drum", "None", "x"])));
    }
    if r.chance(3) {
        lines.push(format!("StackLeniency: {}", num(r)));
    }
    if r.chance(4) {
        lines.push(format!("AudioLeadIn: {}", num(r)));
        lines.push(format!("PreviewTime: {}", num(r)));
        lines.push(format!("Countdown: {}", r.range(0, 4)));
        lines.push(format!("CountdownOffset: {}", num(r)));
    }
    if r.chance(4) {
        lines.push(format!("SampleVolume: {}", num(r)));
        lines.push(format!("SpecialStyle: {}", r.range(0, 1)));
        lines.push(format!("EpilepsyWarning: {}", r.range(0, 1)));
    }
    if r.chance(3) {
        lines.push("[Editor]".into());
        let n = r.below(4);
        let bm: Vec<String> = (0..n).map(|_| num(r)).collect();
        lines.push(format!("Bookmarks: {}", bm.join(",")));
        lines.push(format!("DistanceSpacing: {}", num(r)));
        lines.push(format!("BeatDivisor: {}", num(r)));
        lines.push(format!("GridSize: {}", num(r)));
        lines.push(format!("TimelineZoom: {}", num(r)));
    }
    if r.chance(3) {
        lines.push("[Metadata]".into());
        lines.push(format!("Title:{}", r.pick(&["a", "Re:Zero", " x ", "", "a//b"])));
        lines.push(format!("BeatmapID:{}", num(r)));
        lines.push(format!("BeatmapSetID:{}", num(r)));
    }
    if !r.chance(4) {
        lines.push("[Difficulty]".into());
        for k in ["HPDrainRate", "CircleSize", "OverallDifficulty", "ApproachRate"] {
            if r.chance(3) {
                lines.push(format!("{k}:{}", num(r)));
            }
        }
        if !r.chance(3) {
            let v = match r.below(5) {
                0 => num(r),
                1 => "0.4".into(),
                2 => "3.6".into(),
                _ => format!("{}.{}", r.range(0, 4), r.below(100)),
            };
            lines.push(format!("SliderMultiplier:{v}"));
        }
        if !r.chance(3) {
            let v = match r.below(5) {
                0 => num(r),
                1 => "8".into(),
                2 => "0.5".into(),
                _ => format!("{}", r.range(1, 4)),
            };
            lines.push(format!("SliderTickRate:{v}"));
        }
    }
    if r.chance(2) {
        lines.push("[Events]".into());
        if r.chance(2) {
            lines.push("0,0,\"bg.jpg\",0,0".into());
        }
        for _ in 0..r.below(4) {
            lines.push(format!("2,{},{}", small_time(r), small_time(r)));
        }
        if r.chance(4) {
            lines.push(format!("{},{},{}", num(r), num(r), num(r)));
        }
    }
    if !r.chance(5) {
        lines.push("[TimingPoints]".into());
        for _ in 0..r.below(6) {
            lines.push(timing_point(r));
        }
    }
    if r.chance(4) {
        lines.push("[Colours]".into());
        for i in 0..r.below(4) {
            lines.push(format!("Combo{} : {},{},{}", i + 1, r.range(0, 255), r.range(0, 255), num(r)));
        }
        if r.chance(2) {
            lines.push(format!("SliderBorder : {},{},{},{}", r.range(0, 255), r.range(0, 255), r.range(0, 255), num(r)));
        }
    }
    lines.push("[HitObjects]".into());
    let big_ok = r.chance(3);
    for _ in 0..(1 + r.below(6)) {
        lines.push(hit_object(r, big_ok));
    }
    if r.chance(6) {
        // Mode after sections
        lines.push("[General]".into());
        lines.push(format!("Mode: {}", r.below(4)));
    }
    // mutations
    if r.chance(2) {
        let nm = 1 + r.below(3);
        for _ in 0..nm {
            let i = r.below(lines.len() as u64) as usize;
            match r.below(6) {
                0 => {
                    let j = r.below(lines.len() as u64) as usize;
                    lines.swap(i, j);
                }
                1 => {
                    let l = lines[i].clone();
                    lines.insert(i, l);
                }
                _ => {
                    lines[i] = mutate_line(r, &lines[i].clone());
                }
            }
        }
    }
    let sep = if r.chance(6) { "\r\n" } else { "\n" };
    lines.join(sep) + sep
}

/// upper bound of events the encoder may iterate; used to skip pathological (slow) cases
fn work_bound(map: &mut Beatmap) -> f64 {
    let mut bufs = CurveBuffers::default();
    let mut w = 0.0;
    for h in map.hit_objects.iter_mut() {
        if let HitObjectKind::Slider(ref mut s) = h.kind {
            let d = s.path.curve_with_bufs(&mut bufs).dist();
            let d = if d.is_finite() { d.clamp(0.0, 100000.0) } else { 100000.0 };
            w += f64::from(s.span_count()) * (1.0 + d / 0.5);
        }
    }
    w
}

#[derive(Default)]
struct Agg {
    cases: u64,
    decode_ok: u64,
    decode_err: u64,
    encode_ok: u64,
    skipped_slow: u64,
    redecode_ok: u64,
    redecode_err: u64,
    reencode_ok: u64,
    sliders: u64,
    objects: u64,
    modes: [u64; 4],
    panics: HashMap<String, (u64, String, String)>, // key=stage+location -> (count, message, smallest input)
}

fn main() {
    let a: Vec<String> = std::env::args().collect();
    let iters: u64 = a.get(1).and_then(|s| s.parse().ok()).unwrap_or(100000);
    let threads: u64 = a.get(2).and_then(|s| s.parse().ok()).unwrap_or(16);
    let seed: u64 = a.get(3).and_then(|s| s.parse().ok()).unwrap_or(1);
    std::panic::set_hook(Box::new(|info| {
        let loc = info.location().map(|l| format!("{}:{}", l.file(), l.line())).unwrap_or_default();
        let msg = if let Some(s) = info.payload().downcast_ref::<&str>() {
            s.to_string()
        } else if let Some(s) = info.payload().downcast_ref::<String>() {
            s.clone()
        } else {
            "?".to_string()
        };
        LAST_PANIC.with(|p| *p.borrow_mut() = format!("{loc} :: {msg}"));
    }));
    let agg = Arc::new(Mutex::new(Agg::default()));
    let mut hs = vec![];
    for t in 0..threads {
        let agg = agg.clone();
        hs.push(std::thread::spawn(move || {
            let mut r = Rng(seed.wrapping_mul(0x1234567).wrapping_add(t * 9973 + 11));
            let mut local = Agg::default();
            let record = |local: &mut Agg, stage: &str, text: &str| {
                let info = LAST_PANIC.with(|p| p.borrow().clone());
                let key = format!("{stage} @ {}", info.split(" :: ").next().unwrap_or(""));
                let e = local.panics.entry(key).or_insert((0, info.clone(), text.to_string()));
                e.0 += 1;
                if text.len() < e.2.len() {
                    e.2 = text.to_string();
                    e.1 = info;
                }
            };
            for _ in 0..iters {
                let text = gen_text(&mut r);
                local.cases += 1;
                let dec = std::panic::catch_unwind(|| rosu_map::from_str::<Beatmap>(&text));
                let mut map = match dec {
                    Err(_) => {
                        record(&mut local, "decode", &text);
                        continue;
                    }
                    Ok(Err(_)) => {
                        local.decode_err += 1;
                        continue;
                    }
                    Ok(Ok(m)) => m,
                };
                local.decode_ok += 1;
                local.objects += map.hit_objects.len() as u64;
                local.sliders += map.hit_objects.iter().filter(|h| matches!(h.kind, HitObjectKind::Slider(_))).count() as u64;
                local.modes[map.mode as usize] += 1;
                let wb = std::panic::catch_unwind(std::panic::AssertUnwindSafe(|| work_bound(&mut map)));
                match wb {
                    Err(_) => {
                        record(&mut local, "curve", &text);
                        continue;
                    }
                    Ok(w) if w > 3.0e7 => {
                        local.skipped_slow += 1;
                        continue;
                    }
                    _ => {}
                }
                let enc = std::panic::catch_unwind(std::panic::AssertUnwindSafe(|| map.encode_to_string()));
                let out = match enc {
                    Err(_) => {
                        record(&mut local, "encode", &text);
                        continue;
                    }
                    Ok(Err(_)) => continue,
                    Ok(Ok(s)) => s,
                };
                local.encode_ok += 1;
                let dec2 = std::panic::catch_unwind(|| rosu_map::from_str::<Beatmap>(&out));
                let mut map2 = match dec2 {
                    Err(_) => {
                        record(&mut local, "re-decode", &text);
                        continue;
                    }
                    Ok(Err(_)) => {
                        local.redecode_err += 1;
                        continue;
                    }
                    Ok(Ok(m)) => m,
                };
                local.redecode_ok += 1;
                let w2 = std::panic::catch_unwind(std::panic::AssertUnwindSafe(|| work_bound(&mut map2))).unwrap_or(1e99);
                if w2 > 3.0e7 {
                    continue;
                }
                let enc2 = std::panic::catch_unwind(std::panic::AssertUnwindSafe(|| map2.encode_to_string()));
                match enc2 {
                    Err(_) => record(&mut local, "re-encode", &text),
                    Ok(_) => local.reencode_ok += 1,
                }
            }
            let mut g = agg.lock().unwrap();
            g.cases += local.cases;
            g.decode_ok += local.decode_ok;
            g.decode_err += local.decode_err;
            g.encode_ok += local.encode_ok;
            g.skipped_slow += local.skipped_slow;
            g.redecode_ok += local.redecode_ok;
            g.redecode_err += local.redecode_err;
            g.reencode_ok += local.reencode_ok;
            g.sliders += local.sliders;
            g.objects += local.objects;
            for i in 0..4 { g.modes[i] += local.modes[i]; }
            for (k, v) in local.panics {
                let e = g.panics.entry(k).or_insert((0, v.1.clone(), v.2.clone()));
                e.0 += v.0;
                if v.2.len() < e.2.len() {
                    e.1 = v.1;
                    e.2 = v.2;
                }
            }
        }));
    }
    for h in hs {
        h.join().unwrap();
    }
    let g = agg.lock().unwrap();
    println!(
        "cases={} decode_ok={} decode_err={} skipped_slow={} encode_ok={} redecode_ok={} redecode_err={} reencode_ok={} distinct panic sites={}",
        g.cases, g.decode_ok, g.decode_err, g.skipped_slow, g.encode_ok, g.redecode_ok, g.redecode_err, g.reencode_ok, g.panics.len()
    );
    println!("decoded hit objects={} of which sliders={} ; maps per mode={:?}", g.objects, g.sliders, g.modes);
    for (k, v) in g.panics.iter() {
        println!("=== PANIC {k}: count={} message: {}\n--- smallest input ({} bytes) ---\n{}\n--- end ---", v.0, v.1, v.2.len(), v.2);
    }
}

// QUESTION 1u: UNDERFLOW regime of the Catmull simplification surplus (`optimized_len`) in
// /repo/src/section/hit_objects/slider/curve.rs.  Can Curve::dist() be negative / -0.0 / NaN when the
// Catmull sub-path steps are tiny (below 2^-10, below 2^-60, down to the f32 subnormal range), so that
// `x*x + y*y` in f32 underflows to 0 / a denormal?
//
// Everything is evaluated through the PUBLIC `Curve::new(GameMode::Osu, ..)`.  The exact surplus is
// recomputed by a replica of the simplification loop that runs on the raw Catmull sub-path obtained from
// `Curve::new(GameMode::Taiko, <one Catmull segment>, None)` (non-osu modes return the sub-path unsimplified);
// the replica is validated bit-for-bit against `Curve::lengths()` whenever no expected length is given.
//
// usage: q1u rand <shapes> <seed> | long <shapes> <seed> | grid | decode <fuzz_lines> <seed> | intstep <shapes> <seed>
use rosu_map::section::general::GameMode;
use rosu_map::section::hit_objects::{
    Curve, CurveBuffers, HitObjectKind, PathControlPoint, PathType, SplineType,
};
use rosu_map::util::Pos;
use rosu_map::Beatmap;
use std::cell::RefCell;
use std::panic::{catch_unwind, AssertUnwindSafe};
use std::sync::{Arc, Mutex};

const THREADS: u64 = 8;

// ---------------------------------------------------------------- rng (xorshift64*)
#[derive(Clone)]
struct Rng(u64);
impl Rng {
    fn new(seed: u64) -> Self {
        let mut s = seed.wrapping_mul(0x9E3779B97F4A7C15) ^ 0xD1B54A32D192ED03;
        if s == 0 {
            s = 0x1234_5678_9ABC_DEF1;
        }
        let mut r = Rng(s);
        for _ in 0..16 {
            r.next();
        }
        r
    }
    fn next(&mut self) -> u64 {
        let mut x = self.0;
        x ^= x >> 12;
        x ^= x << 25;
        x ^= x >> 27;
        self.0 = x;
        x.wrapping_mul(0x2545F4914F6CDD1D)
    }
    fn below(&mut self, n: u64) -> u64 {
        (self.next() >> 11) % n
    }
    fn unit(&mut self) -> f64 {
        (self.next() >> 11) as f64 / (1u64 << 53) as f64
    }
    fn range(&mut self, lo: i64, hi: i64) -> i64 {
        lo + self.below((hi - lo + 1) as u64) as i64
    }
    fn sign(&mut self) -> f64 {
        if self.below(2) == 0 {
            1.0
        } else {
            -1.0
        }
    }
}

thread_local! {
    static LAST_PANIC: RefCell<String> = RefCell::new(String::new());
}

// ---------------------------------------------------------------- stats
#[derive(Clone, Default)]
struct Stats {
    shapes: u64,
    evals: u64,
    neg_dist: u64,
    negzero_dist: u64,
    nan_dist: u64,
    inf_dist: u64,
    zero_dist: u64,
    zero_dist_distinct: u64,
    min_dist: f64,
    ex_min_dist: String,
    neg_opt: u64,
    min_opt: f64,
    ex_min_opt: String,
    min_ratio: f64,
    ex_min_ratio: String,
    neg_intermediate: u64,
    min_intermediate: f64,
    ex_min_intermediate: String,
    nonmono: u64,
    nan_len_any: u64,
    nonfinite_path: u64,
    replica_checked: u64,
    replica_mismatch: u64,
    // evidence that the underflow regime is exercised
    steps_total: u64,
    steps_distinct: u64,
    steps_distinct_zero: u64, // points differ, distance == 0 (square underflowed to 0)
    steps_sq_subnormal: u64,  // 0 < dx*dx+dy*dy < f32::MIN_POSITIVE
    steps_below_2m10: u64,    // 0 < d < 2^-10
    steps_below_2m60: u64,    // 0 < d < 2^-60
    groups: u64,
    groups_chord_gt_removed: u64,
    groups_removed_zero_chord_pos: u64,
    min_group_surplus: f64,
    min_group_rel: f64, // (removed - chord) / chord, chord > 0
    enc_checked: u64,
    enc_panics: u64,
    enc_io_err: u64,
    ex_panic: String,
    findings_printed: u64,
}

fn new_stats() -> Stats {
    Stats {
        min_dist: f64::INFINITY,
        min_opt: f64::INFINITY,
        min_ratio: f64::INFINITY,
        min_intermediate: f64::INFINITY,
        min_group_surplus: f64::INFINITY,
        min_group_rel: f64::INFINITY,
        ..Default::default()
    }
}

impl Stats {
    fn merge(&mut self, o: &Stats) {
        self.shapes += o.shapes;
        self.evals += o.evals;
        self.neg_dist += o.neg_dist;
        self.negzero_dist += o.negzero_dist;
        self.nan_dist += o.nan_dist;
        self.inf_dist += o.inf_dist;
        self.zero_dist += o.zero_dist;
        self.zero_dist_distinct += o.zero_dist_distinct;
        self.neg_opt += o.neg_opt;
        self.neg_intermediate += o.neg_intermediate;
        self.nonmono += o.nonmono;
        self.nan_len_any += o.nan_len_any;
        self.nonfinite_path += o.nonfinite_path;
        self.replica_checked += o.replica_checked;
        self.replica_mismatch += o.replica_mismatch;
        self.steps_total += o.steps_total;
        self.steps_distinct += o.steps_distinct;
        self.steps_distinct_zero += o.steps_distinct_zero;
        self.steps_sq_subnormal += o.steps_sq_subnormal;
        self.steps_below_2m10 += o.steps_below_2m10;
        self.steps_below_2m60 += o.steps_below_2m60;
        self.groups += o.groups;
        self.groups_chord_gt_removed += o.groups_chord_gt_removed;
        self.groups_removed_zero_chord_pos += o.groups_removed_zero_chord_pos;
        self.enc_checked += o.enc_checked;
        self.enc_panics += o.enc_panics;
        self.enc_io_err += o.enc_io_err;
        if self.ex_panic.is_empty() {
            self.ex_panic = o.ex_panic.clone();
        }
        if o.min_dist < self.min_dist {
            self.min_dist = o.min_dist;
            self.ex_min_dist = o.ex_min_dist.clone();
        }
        if o.min_opt < self.min_opt {
            self.min_opt = o.min_opt;
            self.ex_min_opt = o.ex_min_opt.clone();
        }
        if o.min_ratio < self.min_ratio {
            self.min_ratio = o.min_ratio;
            self.ex_min_ratio = o.ex_min_ratio.clone();
        }
        if o.min_intermediate < self.min_intermediate {
            self.min_intermediate = o.min_intermediate;
            self.ex_min_intermediate = o.ex_min_intermediate.clone();
        }
        if o.min_group_surplus < self.min_group_surplus {
            self.min_group_surplus = o.min_group_surplus;
        }
        if o.min_group_rel < self.min_group_rel {
            self.min_group_rel = o.min_group_rel;
        }
    }

    fn print(&self, title: &str) {
        println!("==== {title} ====");
        println!(
            "shapes={} evaluations(Curve::new Osu)={} | NEGATIVE dist: {} | -0.0 dist: {} | NaN dist: {} | inf dist: {} | dist==+0.0: {} (of which control points not all equal: {})",
            self.shapes, self.evals, self.neg_dist, self.negzero_dist, self.nan_dist, self.inf_dist, self.zero_dist, self.zero_dist_distinct
        );
        println!(
            "min dist = {:e} [{:#018x}] ; surplus optimized_len<0 on {} shapes, most negative optimized_len = {:e} [{:#018x}] ; min optimized_len/dist (no expected len, dist>0) = {:e}",
            self.min_dist, self.min_dist.to_bits(), self.neg_opt, self.min_opt, self.min_opt.to_bits(), self.min_ratio
        );
        println!(
            "negative intermediate lengths: {} evals (most negative {:e}); non-monotone lengths: {} evals; NaN in lengths: {}; non-finite path() points: {} evals",
            self.neg_intermediate, self.min_intermediate, self.nonmono, self.nan_len_any, self.nonfinite_path
        );
        println!(
            "replica of the simplification validated bit-for-bit against lengths(): {} checked, {} mismatches",
            self.replica_checked, self.replica_mismatch
        );
        println!(
            "underflow evidence: catmull sub-path steps={} distinct-point steps={} of which distance==0 (square underflowed to 0): {} ; 0<square<MIN_POSITIVE (denormal square): {} ; 0<d<2^-10: {} ; 0<d<2^-60: {}",
            self.steps_total, self.steps_distinct, self.steps_distinct_zero, self.steps_sq_subnormal, self.steps_below_2m10, self.steps_below_2m60
        );
        println!(
            "groups={} chord>removed: {} ; removed==0 while chord>0: {} ; most negative single-group surplus = {:e} ; min (removed-chord)/chord = {:e}",
            self.groups, self.groups_chord_gt_removed, self.groups_removed_zero_chord_pos, self.min_group_surplus, self.min_group_rel
        );
        println!(
            "in-memory Beatmap::encode under catch_unwind: {} checked, {} PANICS, {} io errors {}",
            self.enc_checked,
            self.enc_panics,
            self.enc_io_err,
            if self.ex_panic.is_empty() { String::new() } else { format!("| first panic: {}", self.ex_panic) }
        );
        if !self.ex_min_dist.is_empty() {
            println!("  min-dist example: {}", self.ex_min_dist);
        }
        if !self.ex_min_opt.is_empty() {
            println!("  min-optimized_len example: {}", self.ex_min_opt);
        }
        if !self.ex_min_ratio.is_empty() {
            println!("  min-ratio example: {}", self.ex_min_ratio);
        }
        if !self.ex_min_intermediate.is_empty() {
            println!("  most-negative-intermediate example: {}", self.ex_min_intermediate);
        }
    }
}

// ---------------------------------------------------------------- helpers
fn type_tag(t: Option<PathType>) -> &'static str {
    match t.map(|t| t.kind) {
        None => "-",
        Some(SplineType::Catmull) => "C",
        Some(SplineType::Linear) => "L",
        Some(SplineType::BSpline) => "B",
        Some(SplineType::PerfectCurve) => "P",
    }
}

fn describe(pts: &[PathControlPoint], exp: Option<f64>) -> String {
    let mut s = String::new();
    for (i, p) in pts.iter().enumerate() {
        if i >= 14 {
            s.push_str(&format!(" ...({} control points)", pts.len()));
            break;
        }
        s.push_str(&format!(
            " {}({:e}[{:#010x}],{:e}[{:#010x}])",
            type_tag(p.path_type),
            p.pos.x,
            p.pos.x.to_bits(),
            p.pos.y,
            p.pos.y.to_bits()
        ));
    }
    format!("expected={:?} points:{}", exp, s)
}

fn cp(p: Pos, t: Option<PathType>) -> PathControlPoint {
    PathControlPoint { pos: p, path_type: t }
}

/// Exact replica of `calculate_path`'s segmentation + the osu! Catmull simplification; returns optimized_len.
fn replica_opt(pts: &[PathControlPoint], st: &mut Stats, bufs: &mut CurveBuffers) -> f64 {
    let mut opt = 0.0f64;
    if pts.is_empty() {
        return opt;
    }
    let mut start = 0usize;
    let two_m10 = 2f32.powi(-10);
    let two_m60 = 2f32.powi(-60);
    for i in 0..pts.len() {
        if pts[i].path_type.is_none() && i < pts.len() - 1 {
            continue;
        }
        let seg = &pts[start..=i];
        if seg.len() >= 2 {
            let kind = pts[start].path_type.map_or(SplineType::Linear, |t| t.kind);
            if kind == SplineType::Catmull {
                let mut segpts: Vec<PathControlPoint> = seg.iter().map(|p| PathControlPoint::new(p.pos)).collect();
                segpts[0].path_type = Some(PathType::CATMULL);
                let raw = Curve::new(GameMode::Taiko, &segpts, None, bufs);
                let sub = raw.path();
                let mut last_start: Option<Pos> = None;
                let mut removed = 0.0f64;
                for (k, curr) in sub.iter().copied().enumerate() {
                    if k > 0 {
                        let a = sub[k - 1];
                        st.steps_total += 1;
                        if a != curr {
                            st.steps_distinct += 1;
                            let sq = (a - curr).length_squared();
                            let d = a.distance(curr);
                            if d == 0.0 {
                                st.steps_distinct_zero += 1;
                            }
                            if sq > 0.0 && sq < f32::MIN_POSITIVE {
                                st.steps_sq_subnormal += 1;
                            }
                            if d > 0.0 && d < two_m10 {
                                st.steps_below_2m10 += 1;
                            }
                            if d > 0.0 && d < two_m60 {
                                st.steps_below_2m60 += 1;
                            }
                        }
                    }
                    let Some(ls) = last_start else {
                        last_start = Some(curr);
                        continue;
                    };
                    let chord = f64::from(ls.distance(curr));
                    removed += f64::from(sub[k - 1].distance(curr));
                    if chord > 6.0 || ((k + 1) % 100) == 0 || k == sub.len() - 1 {
                        let g = removed - chord;
                        opt += g;
                        st.groups += 1;
                        if chord > removed {
                            st.groups_chord_gt_removed += 1;
                        }
                        if removed == 0.0 && chord > 0.0 {
                            st.groups_removed_zero_chord_pos += 1;
                        }
                        if g < st.min_group_surplus {
                            st.min_group_surplus = g;
                        }
                        if chord > 0.0 && g / chord < st.min_group_rel {
                            st.min_group_rel = g / chord;
                        }
                        last_start = None;
                        removed = 0.0;
                    }
                }
            }
        }
        start = i;
    }
    opt
}

struct Enc {
    template: Beatmap,
}

impl Enc {
    fn new() -> Self {
        let text = "osu file format v14\n\n[General]\nMode: 0\n\n[Difficulty]\nSliderMultiplier:1.4\nSliderTickRate:1\n\n[TimingPoints]\n0,500,4,1,0,100,1,0\n\n[HitObjects]\n0,0,0,2,0,C|1:1|2:0,1\n";
        let template: Beatmap = rosu_map::from_str(text).expect("template decode");
        assert_eq!(template.hit_objects.len(), 1);
        Self { template }
    }
    /// Ok(len) | Err(message)
    fn check(&self, pts: &[PathControlPoint], exp: Option<f64>) -> Result<Result<usize, String>, String> {
        let mut map = self.template.clone();
        if let HitObjectKind::Slider(ref mut s) = map.hit_objects[0].kind {
            *s.path.control_points_mut() = pts.to_vec();
            *s.path.expected_dist_mut() = exp;
        } else {
            unreachable!();
        }
        let r = catch_unwind(AssertUnwindSafe(|| map.encode_to_string().map(|s| s.len()).map_err(|e| e.to_string())));
        match r {
            Ok(v) => Ok(v),
            Err(_) => Err(LAST_PANIC.with(|p| p.borrow().clone())),
        }
    }
}

struct Ctx {
    bufs: CurveBuffers,
    enc: Enc,
    sample_every: u64,
    counter: u64,
}

fn eval_one(pts: &[PathControlPoint], exp: Option<f64>, opt: f64, st: &mut Stats, cx: &mut Ctx) -> f64 {
    let c = Curve::new(GameMode::Osu, pts, exp, &mut cx.bufs);
    st.evals += 1;
    cx.counter += 1;
    let lens = c.lengths();
    let path = c.path();
    let d = c.dist();
    if exp.is_none() {
        // validate replica: lengths must be the fold starting from `opt`
        st.replica_checked += 1;
        let mut acc = opt;
        let mut ok = lens.len() == path.len().max(1) && lens[0].to_bits() == 0;
        if ok {
            for (k, w) in path.windows(2).enumerate() {
                acc += f64::from((w[1] - w[0]).length());
                if acc.to_bits() != lens[k + 1].to_bits() {
                    ok = false;
                    break;
                }
            }
        }
        if !ok {
            st.replica_mismatch += 1;
            if st.replica_mismatch <= 3 {
                println!("REPLICA MISMATCH: {} | opt={:e} lens[..4]={:?}", describe(pts, exp), opt, &lens[..lens.len().min(4)]);
            }
        }
        if d > 0.0 {
            let ratio = opt / d;
            if ratio < st.min_ratio {
                st.min_ratio = ratio;
                st.ex_min_ratio = format!("ratio={:e} opt={:e} dist={:e} | {}", ratio, opt, d, describe(pts, exp));
            }
        }
    }
    let n = lens.len();
    let mut neg_i = false;
    let mut min_i = f64::INFINITY;
    let mut nonmono = false;
    let mut nan_any = false;
    for k in 0..n {
        let v = lens[k];
        if v.is_nan() {
            nan_any = true;
        }
        if k >= 1 && k + 1 < n && v < 0.0 {
            neg_i = true;
            if v < min_i {
                min_i = v;
            }
        }
        if k >= 1 && lens[k] < lens[k - 1] {
            nonmono = true;
        }
    }
    if nan_any {
        st.nan_len_any += 1;
    }
    if nonmono {
        st.nonmono += 1;
    }
    if neg_i {
        st.neg_intermediate += 1;
        if min_i < st.min_intermediate {
            st.min_intermediate = min_i;
            st.ex_min_intermediate = format!("{:e} | dist={:e} | {}", min_i, d, describe(pts, exp));
        }
    }
    if path.iter().any(|p| !p.x.is_finite() || !p.y.is_finite()) {
        st.nonfinite_path += 1;
    }
    let mut suspicious = false;
    if d.is_nan() {
        st.nan_dist += 1;
        suspicious = true;
    } else if d < 0.0 {
        st.neg_dist += 1;
        suspicious = true;
    } else if d == 0.0 && d.is_sign_negative() {
        st.negzero_dist += 1;
        suspicious = true;
    } else if d == 0.0 {
        st.zero_dist += 1;
        if pts.iter().any(|p| p.pos != pts[0].pos) {
            st.zero_dist_distinct += 1;
        }
    } else if d.is_infinite() {
        st.inf_dist += 1;
    }
    if d < st.min_dist {
        st.min_dist = d;
        st.ex_min_dist = format!("dist={:e} [{:#018x}] opt={:e} | {}", d, d.to_bits(), opt, describe(pts, exp));
    }
    if suspicious && st.findings_printed < 10 {
        st.findings_printed += 1;
        println!(
            "FINDING dist={:e} [{:#018x}] opt={:e} lens[..6]={:?} | {}",
            d,
            d.to_bits(),
            opt,
            &lens[..n.min(6)],
            describe(pts, exp)
        );
    }
    if suspicious || cx.counter % cx.sample_every == 0 {
        st.enc_checked += 1;
        match cx.enc.check(pts, exp) {
            Ok(Ok(_)) => {}
            Ok(Err(e)) => {
                st.enc_io_err += 1;
                if st.ex_panic.is_empty() {
                    st.ex_panic = format!("io error {e}");
                }
            }
            Err(msg) => {
                st.enc_panics += 1;
                if st.enc_panics <= 5 {
                    println!("ENCODE PANIC ({msg}) dist={:e} | {}", d, describe(pts, exp));
                }
                if st.ex_panic.is_empty() {
                    st.ex_panic = format!("{msg} | dist={:e} | {}", d, describe(pts, exp));
                }
            }
        }
    }
    d
}

/// variants bit mask: 1 None, 2 Some(1e-30), 4 Some(1.0), 8 Some(natural*0.5)
fn eval_shape(pts: &[PathControlPoint], variants: u8, st: &mut Stats, cx: &mut Ctx) {
    st.shapes += 1;
    let opt = replica_opt(pts, st, &mut cx.bufs);
    if opt < 0.0 {
        st.neg_opt += 1;
    }
    if opt < st.min_opt {
        st.min_opt = opt;
        st.ex_min_opt = format!("opt={:e} [{:#018x}] | {}", opt, opt.to_bits(), describe(pts, None));
    }
    let natural = eval_one(pts, None, opt, st, cx);
    if variants & 2 != 0 {
        eval_one(pts, Some(1e-30), opt, st, cx);
    }
    if variants & 4 != 0 {
        eval_one(pts, Some(1.0), opt, st, cx);
    }
    if variants & 8 != 0 && natural > 0.0 && natural.is_finite() {
        eval_one(pts, Some(natural * 0.5), opt, st, cx);
    }
}

// ---------------------------------------------------------------- generators
const SIZES: [f64; 12] = [1e-3, 1e-6, 1e-10, 1e-15, 1e-19, 1e-20, 1e-22, 1e-25, 1e-30, 1e-38, 1e-42, 1e-45];
const TINY_SIZES: [f64; 9] = [1e-19, 1e-20, 1e-21, 1e-22, 1e-25, 1e-30, 1e-38, 1e-42, 1e-45];

/// an f32 in [-s, s]; several distributions, denormals included (bit-pattern sampling)
fn tiny(r: &mut Rng, s: f64) -> f32 {
    match r.below(7) {
        0 => ((r.unit() * 2.0 - 1.0) * s) as f32,
        1 => {
            let e = r.below(30) as i32;
            (r.sign() * s * 2f64.powi(-e) * (0.5 + 0.5 * r.unit())) as f32
        }
        2 | 3 => {
            let top = (s as f32).to_bits() as u64;
            let b = r.below(top + 1) as u32;
            f32::from_bits(b | ((r.below(2) as u32) << 31))
        }
        4 => (r.range(-4, 4) as f64 * (s / 4.0)) as f32,
        5 => 0.0,
        _ => (r.sign() * s) as f32,
    }
}

fn layout(r: &mut Rng, pos: Vec<Pos>) -> Vec<PathControlPoint> {
    let n = pos.len();
    let mut pts: Vec<PathControlPoint> = pos.iter().map(|&p| PathControlPoint::new(p)).collect();
    let c = Some(PathType::CATMULL);
    let mut choice = r.below(9);
    if n < 3 && matches!(choice, 3 | 4 | 6 | 7) {
        choice = if r.below(2) == 0 { 0 } else { 5 };
    }
    match choice {
        0..=2 => pts[0].path_type = c,
        3 => {
            // Linear then Catmull
            pts[0].path_type = Some(PathType::LINEAR);
            let j = 1 + r.below((n - 2) as u64) as usize;
            pts[j].path_type = c;
        }
        4 => {
            // Catmull then Catmull
            pts[0].path_type = c;
            let j = 1 + r.below((n - 2) as u64) as usize;
            pts[j].path_type = c;
        }
        5 => {
            // zero-length Linear prefix (the known negative-intermediate shape)
            let first = pts[0].pos;
            pts[0].path_type = c;
            pts.insert(0, cp(first, Some(PathType::LINEAR)));
        }
        6 => {
            // Catmull, a repeated point which also starts a new Catmull segment
            pts[0].path_type = c;
            let j = 1 + r.below((n - 2) as u64) as usize;
            let dup = pts[j].pos;
            pts.insert(j + 1, cp(dup, c));
        }
        7 => {
            // Bezier then Catmull
            pts[0].path_type = Some(PathType::BEZIER);
            let j = 1 + r.below((n - 2) as u64) as usize;
            pts[j].path_type = c;
        }
        _ => {
            // three segments C / L / C when long enough, else single C
            pts[0].path_type = c;
            if n >= 5 {
                pts[1 + r.below(2) as usize].path_type = Some(PathType::LINEAR);
                pts[3].path_type = c;
            }
        }
    }
    pts
}

fn structure(r: &mut Rng, n: usize, mut gen: impl FnMut(&mut Rng) -> Pos) -> Vec<Pos> {
    match r.below(7) {
        0 | 1 => (0..n).map(|_| gen(r)).collect(),
        2 => {
            // collinear
            let a = gen(r);
            let b = gen(r);
            (0..n)
                .map(|k| {
                    let t = if r.below(2) == 0 { k as f64 / (n - 1) as f64 } else { r.unit() * 2.0 - 0.5 };
                    Pos::new(
                        (f64::from(a.x) + (f64::from(b.x) - f64::from(a.x)) * t) as f32,
                        (f64::from(a.y) + (f64::from(b.y) - f64::from(a.y)) * t) as f32,
                    )
                })
                .collect()
        }
        3 => {
            // back-and-forth zig-zag returning to the start
            let a = gen(r);
            let b = gen(r);
            let mut v: Vec<Pos> = (0..n).map(|k| if k % 2 == 0 { a } else { b }).collect();
            if n % 2 == 0 {
                v.push(a);
            }
            v
        }
        4 => {
            // repeated points
            let mut v: Vec<Pos> = vec![gen(r)];
            for k in 1..n {
                let p = match r.below(6) {
                    0 | 1 => v[k - 1],
                    2 => v[0],
                    _ => gen(r),
                };
                v.push(p);
            }
            v
        }
        5 => {
            // closed loop: random points then back to start
            let mut v: Vec<Pos> = (0..n).map(|_| gen(r)).collect();
            let f = v[0];
            *v.last_mut().unwrap() = f;
            v
        }
        _ => {
            // three-cycle A,B,C,A,B,C..
            let tri = [gen(r), gen(r), gen(r)];
            (0..n).map(|k| tri[k % 3]).collect()
        }
    }
}

/// (a) all control points in a tiny box of size s around the origin
fn gen_a(r: &mut Rng) -> Vec<PathControlPoint> {
    let s = SIZES[r.below(12) as usize];
    let n = 2 + r.below(7) as usize;
    let lattice = r.below(5) == 0;
    let q = (s / 4.0) as f32;
    let pos = structure(r, n, |r| {
        if lattice {
            Pos::new(r.range(-4, 4) as f32 * q, r.range(-4, 4) as f32 * q)
        } else {
            Pos::new(tiny(r, s), tiny(r, s))
        }
    });
    layout(r, pos)
}

fn nudge(v: f32, k: i64) -> f32 {
    f32::from_bits((v.to_bits() as i64 + k) as u32)
}

/// (b) tiny box (a few ulps) around a large offset
fn gen_b(r: &mut Rng) -> Vec<PathControlPoint> {
    const CENTRES: [(f32, f32); 8] = [
        (1000.5, 777.25),
        (131071.0, -131071.0),
        (3e5, 3e5),
        (256.0, 192.0),
        (-131072.0, 131072.0),
        (0.0, 512.0),
        (-300.0, 0.0),
        (1.0, 1.0),
    ];
    let (cx, cy) = CENTRES[r.below(8) as usize];
    let k = [1i64, 2, 4, 16][r.below(4) as usize];
    let s = TINY_SIZES[r.below(9) as usize];
    let n = 2 + r.below(7) as usize;
    let pos = structure(r, n, |r| {
        let x = if cx == 0.0 { tiny(r, s) } else { nudge(cx, r.range(-k, k)) };
        let y = if cy == 0.0 { tiny(r, s) } else { nudge(cy, r.range(-k, k)) };
        Pos::new(x, y)
    });
    layout(r, pos)
}

/// (c) mixed scales: far-apart points plus clusters of nearly coincident ones (near the origin or near an axis)
fn gen_c(r: &mut Rng) -> Vec<PathControlPoint> {
    let n = 4 + r.below(9) as usize;
    let s = TINY_SIZES[r.below(9) as usize];
    let anchor = match r.below(4) {
        0 | 1 => Pos::new(0.0, 0.0),
        2 => Pos::new(0.0, r.range(-400, 400) as f32),
        _ => Pos::new(r.range(-400, 400) as f32 + 0.5, 0.0),
    };
    let p_cluster = [50u64, 65, 80, 92][r.below(4) as usize];
    let mut pos = Vec::with_capacity(n);
    for _ in 0..n {
        if r.below(100) < p_cluster {
            let x = if anchor.x == 0.0 { tiny(r, s) } else { anchor.x };
            let y = if anchor.y == 0.0 { tiny(r, s) } else { anchor.y };
            pos.push(Pos::new(x, y));
        } else {
            let far = match r.below(3) {
                0 => Pos::new(r.range(-500, 500) as f32, r.range(-500, 500) as f32),
                1 => Pos::new((r.unit() * 1000.0 - 500.0) as f32, (r.unit() * 1000.0 - 500.0) as f32),
                _ => Pos::new(anchor.x + r.range(-7, 7) as f32, anchor.y + r.range(-7, 7) as f32),
            };
            pos.push(far);
        }
    }
    layout(r, pos)
}

/// (c) long zig-zags with step ~ sqrt(f32::MIN_POSITIVE)
fn gen_long(r: &mut Rng) -> Vec<PathControlPoint> {
    let n = 20 + r.below(381) as usize;
    // step exponent 10^-17.5 .. 10^-23.5 : squares 1e-35 .. 1e-47 straddle MIN_POSITIVE (1.2e-38) and the min subnormal (1.4e-45)
    let step = 10f64.powf(-(17.5 + r.unit() * 6.0));
    let anchor = match r.below(4) {
        0 | 1 => (0.0f64, 0.0f64, true, true),
        2 => (0.0, 300.0, true, false),
        _ => (-200.5, 0.0, false, true),
    };
    let kind = r.below(6);
    let (ux, uy) = {
        let a = r.unit() * std::f64::consts::TAU;
        match r.below(3) {
            0 => (1.0, 0.0),
            1 => (std::f64::consts::FRAC_1_SQRT_2, std::f64::consts::FRAC_1_SQRT_2),
            _ => (a.cos(), a.sin()),
        }
    };
    let mut cur = (0.0f64, 0.0f64);
    let mut pos = Vec::with_capacity(n + 2);
    let saw = 2 + r.below(9) as usize;
    for i in 0..n {
        match kind {
            0 => cur = if i % 2 == 0 { (0.0, 0.0) } else { (ux * step, uy * step) },
            1 => cur = (cur.0 + ux * step, cur.1 + uy * step),
            2 => {
                let m = 10f64.powf(-r.unit() * 4.0);
                cur = (cur.0 + (r.unit() * 2.0 - 1.0) * step * m, cur.1 + (r.unit() * 2.0 - 1.0) * step * m)
            }
            3 => {
                let dir = if (i / saw) % 2 == 0 { 1.0 } else { -1.0 };
                cur = (cur.0 + dir * ux * step, cur.1 + dir * uy * step)
            }
            4 => {
                // alternate with jitter
                let j = 1.0 + (r.unit() - 0.5) * 0.5;
                cur = if i % 2 == 0 { (0.0, 0.0) } else { (ux * step * j, uy * step * j) }
            }
            _ => {
                // mostly alternate, occasional far excursion (mixed scale)
                cur = if i % 2 == 0 { (0.0, 0.0) } else { (ux * step, uy * step) };
                if r.below(40) == 0 {
                    cur = (r.range(-300, 300) as f64, r.range(-300, 300) as f64);
                }
            }
        }
        let x = if anchor.2 { cur.0 as f32 } else if cur.0.abs() >= 1.0 { (anchor.0 + cur.0) as f32 } else { anchor.0 as f32 };
        let y = if anchor.3 { cur.1 as f32 } else if cur.1.abs() >= 1.0 { (anchor.1 + cur.1) as f32 } else { anchor.1 as f32 };
        pos.push(Pos::new(x, y));
    }
    let mut pts: Vec<PathControlPoint> = pos.iter().map(|&p| PathControlPoint::new(p)).collect();
    pts[0].path_type = Some(PathType::CATMULL);
    match r.below(5) {
        0 => {
            let f = pts[0].pos;
            pts.insert(0, cp(f, Some(PathType::LINEAR)));
        }
        1 => {
            let j = 1 + r.below((n - 2) as u64) as usize;
            pts[j].path_type = Some(PathType::CATMULL);
        }
        _ => {}
    }
    pts
}

fn spawn_all<F>(f: F) -> Vec<Stats>
where
    F: Fn(u64) -> Vec<Stats> + Send + Sync + 'static,
{
    let f = Arc::new(f);
    let agg: Arc<Mutex<Vec<Stats>>> = Arc::new(Mutex::new(Vec::new()));
    let mut hs = vec![];
    for t in 0..THREADS {
        let f = f.clone();
        let agg = agg.clone();
        hs.push(std::thread::spawn(move || {
            let v = f(t);
            let mut a = agg.lock().unwrap();
            if a.is_empty() {
                *a = v;
            } else {
                for (x, y) in a.iter_mut().zip(v.iter()) {
                    x.merge(y);
                }
            }
        }));
    }
    for h in hs {
        h.join().unwrap();
    }
    let v = agg.lock().unwrap().clone();
    v
}

fn new_ctx(sample_every: u64) -> Ctx {
    Ctx { bufs: CurveBuffers::default(), enc: Enc::new(), sample_every, counter: 0 }
}

fn run_rand(total: u64, seed: u64) {
    let per = total / THREADS;
    let res = spawn_all(move |t| {
        let mut r = Rng::new(seed.wrapping_mul(1_000_003).wrapping_add(t * 7919 + 1));
        let mut st = vec![new_stats(), new_stats(), new_stats()];
        let mut cx = new_ctx(16);
        for _ in 0..per {
            let which = match r.below(10) {
                0..=4 => 0,
                5 | 6 => 1,
                _ => 2,
            };
            let pts = match which {
                0 => gen_a(&mut r),
                1 => gen_b(&mut r),
                _ => gen_c(&mut r),
            };
            eval_shape(&pts, 15, &mut st[which], &mut cx);
        }
        st
    });
    let names = [
        "(a) tiny box around the origin, s in {1e-3..1e-45}, 2..9 control points",
        "(b) few-ulp box around a large offset / next to an axis",
        "(c) mixed scales: far points + nearly coincident clusters (steps 1e-19..1e-45)",
    ];
    let mut all = new_stats();
    for (s, n) in res.iter().zip(names) {
        s.print(&format!("random regime {n}; seed={seed} threads={THREADS} expected in {{None,1e-30,1.0,natural/2}}"));
        all.merge(s);
    }
    all.print(&format!("random TOTAL seed={seed} shapes requested={total}"));
}

fn run_long(total: u64, seed: u64) {
    let per = total / THREADS;
    let res = spawn_all(move |t| {
        let mut r = Rng::new(seed.wrapping_mul(77_777).wrapping_add(t * 104_729 + 3));
        let mut st = vec![new_stats()];
        let mut cx = new_ctx(16);
        for _ in 0..per {
            let pts = gen_long(&mut r);
            eval_shape(&pts, 15, &mut st[0], &mut cx);
        }
        st
    });
    res[0].print(&format!(
        "long zig-zags (20..400 control points, step 10^-17.5..10^-23.5) seed={seed} shapes requested={total} threads={THREADS}"
    ));
}

fn pow2(e: i32) -> f32 {
    if e >= -126 {
        f32::from_bits(((e + 127) as u32) << 23)
    } else {
        f32::from_bits(1u32 << (e + 149))
    }
}

fn run_grid() {
    let quanta: [i32; 7] = [-75, -70, -65, -60, -149, -140, -126];
    let mut all = new_stats();
    for &e in &quanta {
        let q = pow2(e);
        assert_eq!(f64::from(q), 2f64.powi(e));
        for npts in [3usize, 4] {
            let total = 25u64.pow(npts as u32);
            let res = spawn_all(move |t| {
                let mut st = vec![new_stats(), new_stats(), new_stats()];
                let mut cx = new_ctx(64);
                let mut k = t;
                while k < total {
                    let mut c = k;
                    let mut pos = Vec::with_capacity(npts);
                    for _ in 0..npts {
                        let p = c % 25;
                        c /= 25;
                        let x = (p % 5) as i64 - 2;
                        let y = (p / 5) as i64 - 2;
                        pos.push(Pos::new(x as f32 * q, y as f32 * q));
                    }
                    // layout 0: single Catmull
                    let mut pts: Vec<PathControlPoint> = pos.iter().map(|&p| PathControlPoint::new(p)).collect();
                    pts[0].path_type = Some(PathType::CATMULL);
                    eval_shape(&pts, 3, &mut st[0], &mut cx);
                    // layout 1: zero-length Linear prefix
                    let mut p1 = pts.clone();
                    p1.insert(0, cp(pos[0], Some(PathType::LINEAR)));
                    eval_shape(&p1, 3, &mut st[1], &mut cx);
                    // layout 2: Catmull | Catmull split at point 1
                    let mut p2 = pts.clone();
                    p2[1].path_type = Some(PathType::CATMULL);
                    eval_shape(&p2, 3, &mut st[2], &mut cx);
                    k += THREADS;
                }
                st
            });
            let names = ["single C", "zero-length L prefix then C", "C|C split at 2nd point"];
            let mut sub = new_stats();
            for (s, _n) in res.iter().zip(names) {
                sub.merge(s);
            }
            sub.print(&format!(
                "exhaustive grid q=2^{e} ({:e}), {npts} control points in {{-2..2}}^2*q ({total} point tuples x 3 layouts [single C; zero-length L prefix; C|C] x expected {{None,1e-30}})",
                q
            ));
            all.merge(&sub);
        }
    }
    all.print("exhaustive grids TOTAL");
}

// ---------------------------------------------------------------- integer (decodable) control points: how small can sub-path steps get?
fn run_intstep(total: u64, seed: u64) {
    #[derive(Clone)]
    struct S {
        shapes: u64,
        steps: u64,
        distinct: u64,
        distinct_zero: u64,
        below_2m10: u64,
        min_step: f32,
        min_sq: f32,
        ex: String,
    }
    let per = total / THREADS;
    let agg = Arc::new(Mutex::new(S { shapes: 0, steps: 0, distinct: 0, distinct_zero: 0, below_2m10: 0, min_step: f32::INFINITY, min_sq: f32::INFINITY, ex: String::new() }));
    let mut hs = vec![];
    for t in 0..THREADS {
        let agg = agg.clone();
        hs.push(std::thread::spawn(move || {
            let mut r = Rng::new(seed.wrapping_mul(31_337).wrapping_add(t * 1009 + 5));
            let mut bufs = CurveBuffers::default();
            let mut s = S { shapes: 0, steps: 0, distinct: 0, distinct_zero: 0, below_2m10: 0, min_step: f32::INFINITY, min_sq: f32::INFINITY, ex: String::new() };
            let two_m10 = 2f32.powi(-10);
            for it in 0..per {
                let n = 2 + r.below(6) as usize;
                let span = [1i64, 2, 3, 8, 30, 512, 131072][r.below(7) as usize];
                let base = match r.below(4) {
                    0 => (0i64, 0i64),
                    1 => (r.range(-span, span), r.range(-span, span)),
                    2 => (131072, -131072),
                    _ => (r.range(-262144, 262144), r.range(-262144, 262144)),
                };
                let pos = structure(&mut r, n, |r| {
                    let d = [1i64, 2, 3, 8][r.below(4) as usize].min(span);
                    let (x, y) = if r.below(2) == 0 { (base.0 + r.range(-d, d), base.1 + r.range(-d, d)) } else { (r.range(-span, span), r.range(-span, span)) };
                    Pos::new(x.clamp(-262144, 262144) as f32, y.clamp(-262144, 262144) as f32)
                });
                let _ = it;
                // `structure` may interpolate (collinear variant): force integer coordinates again, decoder range
                let pos: Vec<Pos> = pos.iter().map(|p| Pos::new(p.x.round().clamp(-131072.0, 131072.0), p.y.round().clamp(-131072.0, 131072.0))).collect();
                // go through the DECODER: head = first point, remaining points absolute, as in a .osu slider line
                let mut line = format!("{},{},0,2,0,C", pos[0].x as i64, pos[0].y as i64);
                for (k, p) in pos.iter().enumerate().skip(1) {
                    if k >= 2 && r.below(10) == 0 {
                        line.push_str("|C");
                    }
                    line.push_str(&format!("|{}:{}", p.x as i64, p.y as i64));
                }
                line.push_str(",1");
                let Ok(map) = rosu_map::from_str::<Beatmap>(&full_text(&line)) else { continue };
                let Some(HitObjectKind::Slider(sl)) = map.hit_objects.first().map(|h| &h.kind) else { continue };
                let cps = sl.path.control_points();
                assert!(cps.iter().all(|p| p.pos.x.fract() == 0.0 && p.pos.y.fract() == 0.0 && p.pos.x.abs() <= 262144.0 && p.pos.y.abs() <= 262144.0));
                s.shapes += 1;
                // every Catmull segment of the decoded control points, raw (unsimplified) sub-path
                let mut start = 0usize;
                for i in 0..cps.len() {
                    if cps[i].path_type.is_none() && i < cps.len() - 1 {
                        continue;
                    }
                    let seg = &cps[start..=i];
                    let kind = cps[start].path_type.map_or(SplineType::Linear, |t| t.kind);
                    start = i;
                    if seg.len() < 2 || kind != SplineType::Catmull {
                        continue;
                    }
                    let mut pts: Vec<PathControlPoint> = seg.iter().map(|p| PathControlPoint::new(p.pos)).collect();
                    pts[0].path_type = Some(PathType::CATMULL);
                    let raw = Curve::new(GameMode::Taiko, &pts, None, &mut bufs);
                    for w in raw.path().windows(2) {
                        s.steps += 1;
                        if w[0] != w[1] {
                            s.distinct += 1;
                            let sq = (w[0] - w[1]).length_squared();
                            let d = w[0].distance(w[1]);
                            if d == 0.0 {
                                s.distinct_zero += 1;
                            }
                            if d < two_m10 {
                                s.below_2m10 += 1;
                            }
                            if sq < s.min_sq {
                                s.min_sq = sq;
                            }
                            if d < s.min_step {
                                s.min_step = d;
                                s.ex = format!("step={:e} sq={:e} between {:?} and {:?} | line `{}` | decoded segment {}", d, sq, w[0], w[1], line, describe(&pts, None));
                            }
                        }
                    }
                }
            }
            let mut a = agg.lock().unwrap();
            a.shapes += s.shapes;
            a.steps += s.steps;
            a.distinct += s.distinct;
            a.distinct_zero += s.distinct_zero;
            a.below_2m10 += s.below_2m10;
            if s.min_sq < a.min_sq {
                a.min_sq = s.min_sq;
            }
            if s.min_step < a.min_step {
                a.min_step = s.min_step;
                a.ex = s.ex.clone();
            }
        }));
    }
    for h in hs {
        h.join().unwrap();
    }
    let a = agg.lock().unwrap();
    println!("==== DECODED integer sliders (generated .osu slider lines -> Beatmap decode -> control points; integers, |v| <= 262144): raw Catmull sub-path steps of every Catmull segment; seed={seed} ====");
    println!(
        "shapes={} steps={} distinct-point steps={} | distinct points with distance==0: {} | 0<d<2^-10: {} | min nonzero step = {:e} | min nonzero f32 square = {:e} (f32::MIN_POSITIVE = {:e})",
        a.shapes, a.steps, a.distinct, a.distinct_zero, a.below_2m10, a.min_step, a.min_sq, f32::MIN_POSITIVE
    );
    println!("  min-step example: {}", a.ex);
}

// ---------------------------------------------------------------- decode side
fn full_text(line: &str) -> String {
    format!(
        "osu file format v14\n\n[General]\nMode: 0\n\n[Difficulty]\nSliderMultiplier:1.4\nSliderTickRate:1\n\n[TimingPoints]\n0,500,4,1,0,100,1,0\n\n[HitObjects]\n{line}\n"
    )
}

struct DecodeOutcome {
    objects: usize,
    desc: String,
    all_integer: bool,
    dist: f64,
    encode: String,
    panicked: bool,
}

fn decode_line(line: &str, bufs: &mut CurveBuffers) -> Result<DecodeOutcome, String> {
    let text = full_text(line);
    let dec = catch_unwind(|| rosu_map::from_str::<Beatmap>(&text));
    let mut map = match dec {
        Err(_) => return Err(format!("DECODE PANIC {}", LAST_PANIC.with(|p| p.borrow().clone()))),
        Ok(Err(e)) => return Err(format!("decode error {e}")),
        Ok(Ok(m)) => m,
    };
    let mut desc = String::new();
    let mut all_integer = true;
    let mut dist = f64::NAN;
    for h in map.hit_objects.iter_mut() {
        if let HitObjectKind::Slider(ref mut s) = h.kind {
            let okc = |v: f32| v.fract() == 0.0 && v.abs() <= 262144.0;
            if !okc(s.pos.x) || !okc(s.pos.y) {
                all_integer = false;
            }
            for p in s.path.control_points() {
                if !okc(p.pos.x) || !okc(p.pos.y) {
                    all_integer = false;
                }
            }
            let cps: Vec<String> = s
                .path
                .control_points()
                .iter()
                .map(|p| format!("{}({},{})", type_tag(p.path_type), p.pos.x, p.pos.y))
                .collect();
            desc = format!("pos=({},{}) expected={:?} cps=[{}]", s.pos.x, s.pos.y, s.path.expected_dist(), cps.join(" "));
            dist = s.path.curve_with_bufs(bufs).dist();
        }
    }
    let objects = map.hit_objects.len();
    let enc = catch_unwind(AssertUnwindSafe(|| map.encode_to_string().map(|s| s.len())));
    let (encode, panicked) = match enc {
        Ok(Ok(n)) => (format!("encode ok ({n} bytes)"), false),
        Ok(Err(e)) => (format!("encode io error {e}"), false),
        Err(_) => (format!("ENCODE PANIC {}", LAST_PANIC.with(|p| p.borrow().clone())), true),
    };
    Ok(DecodeOutcome { objects, desc, all_integer, dist, encode, panicked })
}

const TOKENS: [&str; 44] = [
    "3", "-3", "+3", "0.0000000000000000001", "1e-20", "1E-20", "-1e-45", "5e-324", "1e-400", "-1e-400", "0.5", "-0.9", "0.9999999", "1.9999999",
    ".5", "5.", "1e2", "1e+2", "1.5e2", "1e5", "1.31072e5", "131072", "131072.0000001", "131072.9", "-131072.5", "131071.9999", "2e5", "1e400",
    " 7 ", "7 ", "NaN", "nan", "inf", "-inf", "infinity", "0x10", "1_0", "1f", "1e", "e5", "", "-0", "-0.0", "1,5",
];

fn run_decode(fuzz: u64, seed: u64) {
    let mut bufs = CurveBuffers::default();
    println!("==== slider-line coordinate syntax accepted by the decoder (control point token T in `0,0,0,2,0,C|T:0|5:5,1`) ====");
    for t in TOKENS {
        let line = format!("0,0,0,2,0,C|{t}:0|5:5,1");
        match decode_line(&line, &mut bufs) {
            Ok(o) if o.objects == 1 => println!("  T={:<24} ACCEPTED -> {} dist={:e} ; {}", format!("{t:?}"), o.desc, o.dist, o.encode),
            Ok(o) => println!("  T={:<24} line dropped (objects={}) ; {}", format!("{t:?}"), o.objects, o.encode),
            Err(e) => println!("  T={:<24} {e}", format!("{t:?}")),
        }
    }
    println!("==== same tokens as the slider HEAD x (`T,0,0,2,0,C|1:1|5:5,1`) ====");
    for t in TOKENS {
        let line = format!("{t},0,0,2,0,C|1:1|5:5,1");
        match decode_line(&line, &mut bufs) {
            Ok(o) if o.objects == 1 => println!("  T={:<24} ACCEPTED -> {} dist={:e} ; {}", format!("{t:?}"), o.desc, o.dist, o.encode),
            Ok(o) => println!("  T={:<24} line dropped (objects={}) ; {}", format!("{t:?}"), o.objects, o.encode),
            Err(e) => println!("  T={:<24} {e}", format!("{t:?}")),
        }
    }
    println!("==== hand-written tiny-coordinate sliders through decode + encode ====");
    let lines = [
        "0,0,0,2,0,C|1e-20:0|2e-20:0,1",
        "0,0,0,2,0,C|0.0000000000000000001:0|0.0000000000000000002:0.0000000000000000001,1",
        "1e-20,1e-20,0,2,0,C|1e-20:1e-20|3e-20:0|1e-20:1e-20,1",
        "0.9,0.9,0,2,0,C|0.9:0.9|-0.9:-0.9|1.9:1.9,1",
        "0,0,0,2,0,C|1e-45:1e-45|-1e-45:1e-45|1e-45:-1e-45,1,1e-30",
        "0,0,0,2,0,C|1e-20:0|2e-20:0,1,1e-30",
        "0,0,0,2,0,C|1e-20:0|2e-20:0,1,5e-324",
        "0,0,0,2,0,C|0:0|1:0,1,1e-30",
        "0,0,0,2,0,C|0:0|1:0,1,2.2e-16",
        "0,0,0,2,0,C|0:0|1:0,1,2.3e-16",
        "0,0,0,2,0,L|0:0|C|0:0|2:1,1,1e-30",
        "0,0,0,2,0,L|1e-20:1e-20|C|1e-20:1e-20|2e-20:1e-20,1",
        "0,0,0,2,0,C|0.4:0.4|0.6:0.6|0.4:0.4|0.6:0.6,1,1e-300",
    ];
    for l in lines {
        match decode_line(l, &mut bufs) {
            Ok(o) => println!("  {l}\n     -> objects={} {} dist={:e} [{:#018x}] ; {}", o.objects, o.desc, o.dist, o.dist.to_bits(), o.encode),
            Err(e) => println!("  {l}\n     -> {e}"),
        }
    }
    // fuzz: random slider lines whose coordinates are drawn from fractional / exponent forms
    let per = fuzz / THREADS;
    #[derive(Clone, Default)]
    struct F {
        lines: u64,
        decoded: u64,
        dropped: u64,
        errors: u64,
        non_integer: u64,
        neg: u64,
        negzero: u64,
        nan: u64,
        panics: u64,
        min_dist: f64,
        ex: String,
    }
    let agg = Arc::new(Mutex::new(F { min_dist: f64::INFINITY, ..Default::default() }));
    let mut hs = vec![];
    for t in 0..THREADS {
        let agg = agg.clone();
        hs.push(std::thread::spawn(move || {
            let mut r = Rng::new(seed.wrapping_mul(2_654_435_761).wrapping_add(t * 271 + 9));
            let mut bufs = CurveBuffers::default();
            let mut f = F { min_dist: f64::INFINITY, ..Default::default() };
            let tok = |r: &mut Rng| -> String {
                match r.below(12) {
                    0 => format!("{}e-{}", r.range(-9, 9), r.range(1, 50)),
                    1 => format!("0.{}{}", "0".repeat(r.below(45) as usize), r.range(1, 9)),
                    2 => format!("-0.{}{}", "0".repeat(r.below(45) as usize), r.range(1, 9)),
                    3 => format!("{}.{}", r.range(-3, 3), r.below(1_000_000)),
                    4 => format!("{}e{}", r.range(-9, 9), r.range(-3, 5)),
                    5 => format!("{}.{}e-{}", r.range(0, 9), r.below(1000), r.range(0, 330)),
                    6 => TOKENS[r.below(TOKENS.len() as u64) as usize].to_string(),
                    7 => format!("{}", r.range(-2, 2)),
                    8 => format!("{}.{}", r.range(131060, 131072), r.below(100)),
                    9 => format!("{}.5", r.range(-131072, 131071)),
                    _ => format!("{}", r.range(-3, 3)),
                }
            };
            for _ in 0..per {
                let n = 1 + r.below(6);
                let mut path = String::new();
                match r.below(4) {
                    0 => {
                        let a = tok(&mut r);
                        let b = tok(&mut r);
                        path.push_str(&format!("L|{a}:{b}|C|{a}:{b}"));
                    }
                    _ => path.push('C'),
                }
                for k in 0..n {
                    if k > 0 && r.below(8) == 0 {
                        path.push_str("|C");
                    }
                    path.push_str(&format!("|{}:{}", tok(&mut r), tok(&mut r)));
                }
                let len = match r.below(6) {
                    0 => ",1e-30".to_string(),
                    1 => format!(",{}", tok(&mut r)),
                    2 => ",1".to_string(),
                    _ => String::new(),
                };
                let line = format!("{},{},0,2,0,{path},1{len}", tok(&mut r), tok(&mut r));
                f.lines += 1;
                match decode_line(&line, &mut bufs) {
                    Err(e) => {
                        f.errors += 1;
                        if e.contains("PANIC") {
                            f.panics += 1;
                            if f.ex.is_empty() {
                                f.ex = format!("{e} | {line}");
                            }
                        }
                    }
                    Ok(o) => {
                        if o.objects == 0 {
                            f.dropped += 1;
                        } else {
                            f.decoded += 1;
                            if !o.all_integer {
                                f.non_integer += 1;
                                if f.ex.is_empty() {
                                    f.ex = format!("NON-INTEGER {} | {line}", o.desc);
                                }
                            }
                            if o.dist.is_nan() {
                                f.nan += 1;
                            } else if o.dist < 0.0 {
                                f.neg += 1;
                            } else if o.dist == 0.0 && o.dist.is_sign_negative() {
                                f.negzero += 1;
                            }
                            if o.dist < f.min_dist {
                                f.min_dist = o.dist;
                            }
                        }
                        if o.panicked {
                            f.panics += 1;
                            if f.ex.is_empty() {
                                f.ex = format!("{} | {line}", o.encode);
                            }
                        }
                    }
                }
            }
            let mut a = agg.lock().unwrap();
            a.lines += f.lines;
            a.decoded += f.decoded;
            a.dropped += f.dropped;
            a.errors += f.errors;
            a.non_integer += f.non_integer;
            a.neg += f.neg;
            a.negzero += f.negzero;
            a.nan += f.nan;
            a.panics += f.panics;
            if f.min_dist < a.min_dist {
                a.min_dist = f.min_dist;
            }
            if a.ex.is_empty() {
                a.ex = f.ex.clone();
            }
        }));
    }
    for h in hs {
        h.join().unwrap();
    }
    let a = agg.lock().unwrap();
    println!("==== decode fuzz with fractional / exponent coordinate tokens; seed={seed} ====");
    println!(
        "lines={} decoded-with-slider={} line-dropped={} decode-errors={} | sliders with a NON-INTEGER head/control coordinate (or |v|>262144): {} | negative dist: {} | -0.0 dist: {} | NaN dist: {} | min dist {:e} | decode/encode PANICS: {}",
        a.lines, a.decoded, a.dropped, a.errors, a.non_integer, a.neg, a.negzero, a.nan, a.min_dist, a.panics
    );
    if !a.ex.is_empty() {
        println!("  example: {}", a.ex);
    }
}

fn main() {
    let args: Vec<String> = std::env::args().collect();
    let what = args.get(1).map(String::as_str).unwrap_or("help");
    std::panic::set_hook(Box::new(|info| {
        let msg = format!("{info}").replace('\n', " ");
        LAST_PANIC.with(|p| *p.borrow_mut() = msg);
    }));
    let num = |i: usize, d: u64| -> u64 { args.get(i).and_then(|s| s.parse().ok()).unwrap_or(d) };
    let t0 = std::time::Instant::now();
    match what {
        "rand" => run_rand(num(2, 2_000_000), num(3, 1)),
        "long" => run_long(num(2, 20_000), num(3, 1)),
        "grid" => run_grid(),
        "decode" => run_decode(num(2, 400_000), num(3, 1)),
        "intstep" => run_intstep(num(2, 2_000_000), num(3, 1)),
        "one" => {
            // q1u one <expected|none> <type:xbits:ybits>...   (bits in hex, type in C L B -)
            let exp = args.get(2).and_then(|s| s.parse::<f64>().ok());
            let mut pts = vec![];
            for a in &args[3..] {
                let f: Vec<&str> = a.split(':').collect();
                let t = match f[0] {
                    "C" => Some(PathType::CATMULL),
                    "L" => Some(PathType::LINEAR),
                    "B" => Some(PathType::BEZIER),
                    _ => None,
                };
                let x = f32::from_bits(u32::from_str_radix(f[1].trim_start_matches("0x"), 16).unwrap());
                let y = f32::from_bits(u32::from_str_radix(f[2].trim_start_matches("0x"), 16).unwrap());
                pts.push(cp(Pos::new(x, y), t));
            }
            let mut st = new_stats();
            let mut cx = new_ctx(1);
            let opt = replica_opt(&pts, &mut st, &mut cx.bufs);
            let c = Curve::new(GameMode::Osu, &pts, exp, &mut cx.bufs);
            println!("{}", describe(&pts, exp));
            println!("optimized_len (replica) = {:e} [{:#018x}]", opt, opt.to_bits());
            println!("path ({} points): {:?}", c.path().len(), &c.path()[..c.path().len().min(12)]);
            for (i, v) in c.lengths().iter().enumerate().take(12) {
                println!("lengths[{i}] = {:e} [{:#018x}]", v, v.to_bits());
            }
            println!("dist = {:e} [{:#018x}]", c.dist(), c.dist().to_bits());
            println!("encode: {:?}", cx.enc.check(&pts, exp));
            st.print("one");
        }
        _ => println!("usage: q1u rand N seed | long N seed | grid | decode N seed | intstep N seed | one <exp|none> T:xbits:ybits ..."),
    }
    println!("[elapsed {:.1}s]", t0.elapsed().as_secs_f64());
}

// QUESTION 2b: grid scan of decoded parameter combinations: the tick_dist the encoder would use, and len/tick_dist.
use rosu_map::section::hit_objects::{CurveBuffers, HitObjectKind};
use rosu_map::Beatmap;
fn main() {
    let versions = [3, 5, 7, 8, 9, 14, 128];
    let modes = [0u8, 2];
    let sms = ["0.4", "3.6", "0", "-1", "1e-300", "1e300", "0.39999", "NaN", "inf", "", "1.4"];
    let trs = ["8", "0.5", "0", "-1", "1e300", "1e-300", "NaN", "inf", "", "1"];
    let reds = ["6", "0.0001", "1e-300", "60000", "1e9", "-10", "-0.0001", "2147483647", "0", "-0", "500", "-2147483647"];
    let inhs = ["none", "NaN", "-0.0001", "-1e-300", "-10", "-1000", "-100000", "-2147483647", "0.0001", "1e-300", "-100", "-0", "0", "-9.99", "-1000.0001"];
    let mut min_td = (f64::INFINITY, String::new());
    let mut max_ratio = (0.0f64, String::new());
    let mut nonfinite = 0u64;
    let mut nonpos = 0u64;
    let mut n = 0u64;
    let mut nosl = 0u64;
    let mut bufs = CurveBuffers::default();
    for v in versions { for m in modes { for sm in sms { for tr in trs { for red in reds { for inh in inhs {
        let mut text = format!("osu file format v{v}\n\n[General]\nMode: {m}\n\n[Difficulty]\nSliderMultiplier:{sm}\nSliderTickRate:{tr}\n\n[TimingPoints]\n0,{red},4,1,0,100,1,0\n");
        if inh != "none" { text.push_str(&format!("0,{inh},4,1,0,100,0,0\n")); }
        text.push_str("\n[HitObjects]\n0,0,0,2,0,L|1:0,9000,131072\n");
        let mut map: Beatmap = rosu_map::from_str(&text).unwrap();
        n += 1;
        let fv = map.format_version; let trate = map.slider_tick_rate; let smult = map.slider_multiplier;
        let cps = map.control_points.clone();
        let Some(h) = map.hit_objects.get_mut(0) else { nosl += 1; continue };
        let start = h.start_time;
        let HitObjectKind::Slider(ref mut s) = h.kind else { continue };
        let beat_len = cps.timing_point_at(start).map_or(1000.0, |p| p.beat_len);
        let (sv, gen) = cps.difficulty_point_at(start).map_or((1.0, true), |p| (p.slider_velocity, p.generate_ticks));
        let mult = if fv < 8 { sv.recip() } else { 1.0 };
        let td = if m == 2 { 100.0 * smult / trate * mult } else if gen { s.velocity * beat_len / trate * mult } else { f64::INFINITY };
        let dist = s.path.curve_with_bufs(&mut bufs).dist();
        let len = dist.min(100000.0);
        let desc = format!("v{v} mode{m} SM={sm} TR={tr} red={red} inh={inh} -> decoded SM={smult:e} TR={trate:e} beat_len={beat_len:e} sv={sv:e} velocity={:e} tick_dist={td:e} [{:#018x}] len={len:e}", s.velocity, td.to_bits());
        if !td.is_finite() { nonfinite += 1; }
        if !(td > 0.0) { nonpos += 1; println!("NON-POSITIVE/NaN tick_dist: {desc}"); }
        if td > 0.0 && td < min_td.0 { min_td = (td, desc.clone()); }
        let tdc = if td.is_nan() { td } else { td.clamp(0.0, len) };
        let ratio = len / tdc;
        if tdc > 0.0 && ratio > max_ratio.0 { max_ratio = (ratio, desc); }
    }}}}}}
    println!("combos={n} (no slider decoded: {nosl}) non-finite tick_dist (generate_ticks=false => +inf): {nonfinite}; non-positive or NaN: {nonpos}");
    println!("min positive tick_dist = {:e}\n   {}", min_td.0, min_td.1);
    println!("max len/tick_dist = {:e}\n   {}", max_ratio.0, max_ratio.1);
}

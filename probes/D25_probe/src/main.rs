use std::{sync::mpsc, thread, time::Duration};

use rosu_map::{
    section::{
        general::GameMode,
        hit_objects::{Curve, CurveBuffers, PathControlPoint, PathType},
    },
    util::Pos,
};

fn run(name: &'static str, pts: Vec<PathControlPoint>) {
    let (tx, rx) = mpsc::channel();
    thread::spawn(move || {
        let mut bufs = CurveBuffers::default();
        let c = Curve::new(GameMode::Osu, &pts, None, &mut bufs);
        let _ = tx.send((c.path().len(), c.dist()));
    });
    match rx.recv_timeout(Duration::from_secs(5)) {
        Ok((n, d)) => println!("{name}: returned, {n} vertices, dist {d}"),
        Err(_) => println!("{name}: NO RETURN after 5 s"),
    }
}

fn cp(x: f32, y: f32, t: Option<PathType>) -> PathControlPoint {
    PathControlPoint { pos: Pos::new(x, y), path_type: t }
}

fn main() {
    let which = std::env::args().nth(1).unwrap_or_default();
    let run = |name: &'static str, pts: Vec<PathControlPoint>| { if which.is_empty() || which == name { run(name, pts) } };
    // control: finite Bezier
    run("finite", vec![cp(0.0, 0.0, Some(PathType::BEZIER)), cp(100.0, 100.0, None), cp(200.0, 0.0, None)]);
    // one infinite coordinate
    run("inf", vec![cp(f32::INFINITY, 0.0, Some(PathType::BEZIER)), cp(0.0, 0.0, None), cp(0.0, 0.0, None)]);
    // finite coordinates whose sum overflows in (a + b) / 2
    run("3e38", vec![cp(3e38, 0.0, Some(PathType::BEZIER)), cp(3e38, 0.0, None), cp(0.0, 0.0, None)]);
    // NaN: every comparison is false -> "flat"
    run("nan", vec![cp(f32::NAN, 0.0, Some(PathType::BEZIER)), cp(0.0, 0.0, None), cp(0.0, 0.0, None)]);
    // the largest coordinate the decoder lets through
    run("131072", vec![cp(131072.0, -131072.0, Some(PathType::BEZIER)), cp(-131072.0, 131072.0, None), cp(131072.0, 131072.0, None), cp(-131072.0, -131072.0, None)]);
}

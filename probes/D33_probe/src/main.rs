// D33 candidate: a spinner / hold stores duration = fl(end - start) and is written with the end time
// fl(start + duration); the re-read duration fl(fl(start + duration) - start) can differ from the stored
// one by an ulp when the start is far smaller than the end's ulp and end - start is a half-ulp tie.
//   e = 1024 + 2^-42, s = 2^-43: d = fl(e - s) = 1024 (tie to even), fl(s + d) = 1024,
//   fl(1024 - s) = 1023.9999999999999 != d.
use rosu_map::section::hit_objects::HitObjectKind;
use rosu_map::Beatmap;

fn durations(m: &Beatmap) -> Vec<(f64, f64)> {
    m.hit_objects
        .iter()
        .map(|h| {
            let d = match &h.kind {
                HitObjectKind::Spinner(s) => s.duration,
                HitObjectKind::Hold(hd) => hd.duration,
                _ => f64::NAN,
            };
            (h.start_time, d)
        })
        .collect()
}

fn run(name: &str, text: &str) {
    println!("== {name}");
    let m1 = Beatmap::from_bytes(text.as_bytes()).unwrap();
    let enc = m1.clone().encode_to_string().unwrap();
    for l in enc.lines().skip_while(|l| *l != "[HitObjects]").skip(1) {
        println!("   written: {l}");
    }
    let m2 = Beatmap::from_bytes(enc.as_bytes()).unwrap();
    let (d1, d2) = (durations(&m1), durations(&m2));
    for (a, b) in d1.iter().zip(d2.iter()) {
        println!(
            "   start {:?} -> {:?}   duration {:?} ({:#018x}) -> {:?} ({:#018x})   {}",
            a.0, b.0, a.1, a.1.to_bits(), b.1, b.1.to_bits(),
            if a.1.to_bits() == b.1.to_bits() { "same" } else { "DIFFERENT" }
        );
    }
    println!("   objects {} -> {}", d1.len(), d2.len());
}

fn main() {
    let s = 2f64.powi(-43);
    let e = 1024.0 + 2f64.powi(-42);
    println!("s = {s:?}  e = {e:?}  fl(e-s) = {:?}  fl(s+fl(e-s)) = {:?}  fl(fl(s+d)-s) = {:?}",
        e - s, s + (e - s), (s + (e - s)) - s);
    let head = "osu file format v14\n\n[General]\nMode:0\n\n[TimingPoints]\n0,500,4,1,0,100,1,0\n\n[HitObjects]\n";
    run("spinner", &format!("{head}256,192,0.00000000000011368683772161603,12,0,1024.0000000000002\n"));
    let head3 = "osu file format v14\n\n[General]\nMode:3\n\n[TimingPoints]\n0,500,4,1,0,100,1,0\n\n[HitObjects]\n";
    run("hold (mania)", &format!("{head3}100,192,0.00000000000011368683772161603,128,0,1024.0000000000002:0:0:0:0:\n"));
    // control: integer times survive
    run("control spinner", &format!("{head}256,192,100,12,0,1124\n"));
}

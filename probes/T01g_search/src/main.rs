//! T01g search: look for a Bezier segment on which `approximate_bspline` of the real crate does
//! not return, outside the range covered by `C01_T01g_ieee_bounded`.
//!
//! driver (no args): enumerates cases, runs each one in a child process of this same binary under
//! a 10 s watchdog (a hung child is killed by its own PID), prints one line per case class and
//! every case that did not return.
//! child (`case ...`): builds the control points, calls the real `Curve::new` /
//! `BorrowedCurve::new` (or decodes a `[HitObjects]` line and asks for the curve) and prints the
//! number of path vertices.
//! `mirror ...`: the same loop re-implemented in f32 with counters (iterations, maximal stack
//! depth, parent == child detection) to classify a case that did not return in time.
use std::{
    env,
    io::Read,
    process::{Command, Stdio},
    time::{Duration, Instant},
};

use rosu_map::{
    section::{
        general::GameMode,
        hit_objects::{BorrowedCurve, Curve, CurveBuffers, HitObjectKind, HitObjects, PathControlPoint, PathType},
    },
    util::Pos,
};

struct Rng(u64);
impl Rng {
    fn next(&mut self) -> u64 {
        self.0 ^= self.0 << 13;
        self.0 ^= self.0 >> 7;
        self.0 ^= self.0 << 17;
        self.0
    }
    fn below(&mut self, n: u64) -> u64 { self.next() % n.max(1) }
}

/// `x` moved by `k` units in the last place (through the bit pattern, sign-aware)
fn ulps(x: f32, k: i64) -> f32 {
    let b = x.to_bits();
    let key: i64 = if b >> 31 == 0 { b as i64 } else { -((b & 0x7fff_ffff) as i64) };
    let k2 = key + k;
    let bits: u32 = if k2 >= 0 { k2 as u32 } else { ((-k2) as u32) | 0x8000_0000 };
    f32::from_bits(bits)
}

/// the generated families; every point is (base_x +- ..., base_y +- ...) in ulps of the base
fn points(family: &str, n: usize, bx: f32, by: f32, amp: i64, seed: u64, int: bool) -> Vec<(f32, f32)> {
    // the two witnesses of coq/Proofs/BezierIEEEFinite.v (C01_T01g_ieee_refuted_finite[_2p22])
    if family == "w23" {
        return vec![(8388608.0, 8388609.0), (8388608.0, 8388608.0), (8388608.0, 8388608.0)];
    }
    if family == "w22" {
        return vec![(4194304.0, 4194305.0), (4194304.5, 4194304.5), (4194304.5, 4194304.5)];
    }
    let mut r = Rng(seed.wrapping_mul(0x9E37_79B9_7F4A_7C15) | 1);
    let mut v = Vec::with_capacity(n);
    let mut wx = 0i64;
    let mut wy = 0i64;
    for i in 0..n {
        let ii = i as i64;
        let (dx, dy) = match family {
            // adjacent floats, one after the other
            "ramp" => (ii * amp, 0),
            "ramp2" => (ii * amp, -ii * amp),
            // zig-zag of amplitude `amp` ulps, x and y in opposite phase
            "zig" => (if i % 2 == 0 { 0 } else { amp }, if i % 2 == 0 { amp } else { 0 }),
            // zig-zag riding on a ramp
            "zigramp" => (ii + if i % 2 == 0 { 0 } else { amp }, ii * 2 + if i % 2 == 0 { amp } else { 0 }),
            // period 3 / period 4 saw teeth
            "saw3" => ((ii % 3) * amp, ((ii + 1) % 3) * amp),
            "saw4" => ((ii % 4) * amp, ((ii + 2) % 4) * amp),
            // only odd multiples of the ulp: every midpoint of neighbours is a tie or exact
            "odd" => (2 * (r.below(amp as u64 + 1) as i64) + 1, 2 * (r.below(amp as u64 + 1) as i64) + 1),
            // uniformly random in a box of `amp` ulps
            "box" => (r.below(amp as u64 + 1) as i64, r.below(amp as u64 + 1) as i64),
            // random walk with steps in [-amp, amp]
            "walk" => {
                wx += r.below(2 * amp as u64 + 1) as i64 - amp;
                wy += r.below(2 * amp as u64 + 1) as i64 - amp;
                (wx, wy)
            }
            // two clusters `amp` ulps apart, switching at random
            "two" => (if r.below(2) == 0 { 0 } else { amp }, if r.below(2) == 0 { 0 } else { amp }),
            _ => panic!("family"),
        };
        if int {
            // integer coordinates inside the parser's range: 131072 - |offset| with the sign of the base
            let f = |b: f32, d: i64| b.signum() * (131072 - d.abs() % 4096) as f32;
            let mut p = (f(bx, dx), f(by, dy));
            // a repeated point would end the segment (the decoder splits there)
            if v.last() == Some(&p) {
                p.1 -= p.1.signum() * 5000.0;
            }
            v.push(p);
        } else {
            v.push((ulps(bx, dx), ulps(by, dy)));
        }
    }
    v
}

fn cps(v: &[(f32, f32)]) -> Vec<PathControlPoint> {
    v.iter()
        .enumerate()
        .map(|(i, &(x, y))| PathControlPoint {
            pos: Pos::new(x, y),
            path_type: if i == 0 { Some(PathType::BEZIER) } else { None },
        })
        .collect()
}

// ---------- the loop, re-implemented with counters (classification only) ----------
fn flat(p: &[(f32, f32)]) -> bool {
    let limit = 0.25f32 * 0.25f32 * 4.0f32;
    for w in p.windows(3) {
        let x = w[0].0 - w[1].0 * 2.0 + w[2].0;
        let y = w[0].1 - w[1].1 * 2.0 + w[2].1;
        if x * x + y * y > limit {
            return false;
        }
    }
    true
}
fn subdivide(p: &[(f32, f32)]) -> (Vec<(f32, f32)>, Vec<(f32, f32)>) {
    let n = p.len();
    let mut m = p.to_vec();
    let mut l = vec![(0.0, 0.0); n];
    let mut r = vec![(0.0, 0.0); n];
    for i in (1..n).rev() {
        l[n - i - 1] = m[0];
        r[i] = m[i];
        for j in 0..i {
            m[j] = ((m[j].0 + m[j + 1].0) / 2.0, (m[j].1 + m[j + 1].1) / 2.0);
        }
    }
    l[n - 1] = m[0];
    r[0] = m[0];
    (l, r)
}
fn mirror(p: &[(f32, f32)], cap: u64) -> String {
    let mut st: Vec<(Vec<(f32, f32)>, u32)> = vec![(p.to_vec(), 0)];
    let (mut it, mut maxd, fix) = (0u64, 0u32, 0u64);
    while let Some((c, d)) = st.pop() {
        it += 1;
        maxd = maxd.max(d);
        if it > cap || st.len() > 20_000 {
            return format!("mirror: CAP {cap} reached, max depth {maxd}, stack {}, child==parent {fix}", st.len());
        }
        if flat(&c) {
            continue;
        }
        let (l, r) = subdivide(&c);
        let same = |a: &[(f32, f32)], b: &[(f32, f32)]| a.iter().zip(b).all(|(x, y)| x.0.to_bits() == y.0.to_bits() && x.1.to_bits() == y.1.to_bits());
        if same(&l, &c) || same(&r, &c) {
            return format!("mirror: CHILD == PARENT at depth {d} after {it} iterations: the loop cannot return; parent {:?}", &c[..c.len().min(8)]);
        }
        st.push((r, d + 1));
        st.push((l, d + 1));
    }
    format!("mirror: returns after {it} iterations, max depth {maxd}")
}

fn parse_case(a: &[String]) -> (String, String, usize, f32, f32, i64, u64) {
    (
        a[0].clone(),
        a[1].clone(),
        a[2].parse().unwrap(),
        f32::from_bits(u32::from_str_radix(&a[3], 16).unwrap()),
        f32::from_bits(u32::from_str_radix(&a[4], 16).unwrap()),
        a[5].parse().unwrap(),
        a[6].parse().unwrap(),
    )
}

/// a `[HitObjects]` line: integer coordinates only (the parser truncates); control points are
/// stored relative to the slider position, so the segment lives near (x - px, y - py)
fn line_of(px: i32, py: i32, v: &[(f32, f32)]) -> String {
    let mut s = format!("osu file format v14\n\n[HitObjects]\n{px},{py},0,2,0,B");
    for &(x, y) in v {
        s.push_str(&format!("|{}:{}", x as i64, y as i64));
    }
    s.push_str(",1,131071\n");
    s
}

fn child(a: &[String]) {
    let (api, family, n, bx, by, amp, seed) = parse_case(a);
    let v = points(&family, n, bx, by, amp, seed, api == "line");
    match api.as_str() {
        "new" => {
            let mut bufs = CurveBuffers::default();
            let c = Curve::new(GameMode::Osu, &cps(&v), None, &mut bufs);
            println!("ok {} {}", c.path().len(), c.dist());
        }
        "borrowed" => {
            let mut bufs = CurveBuffers::default();
            let pts = cps(&v);
            let c = BorrowedCurve::new(GameMode::Osu, &pts, Some(100.0), &mut bufs);
            println!("ok {} {}", c.path().len(), c.dist());
        }
        "line" => {
            // slider at the opposite corner of the coordinate range: relative coordinates up to 2^18
            let (px, py) = (if bx > 0.0 { -131072 } else { 131072 }, if by > 0.0 { -131072 } else { 131072 });
            let text = line_of(px, py, &v);
            let mut h: HitObjects = rosu_map::from_str(&text).expect("decode");
            let mut total = 0usize;
            let mut sliders = 0usize;
            for o in h.hit_objects.iter_mut() {
                if let HitObjectKind::Slider(s) = &mut o.kind {
                    sliders += 1;
                    assert!(s.path.control_points().len() == v.len() + 1, "control points lost");
                    assert!(s.path.control_points().iter().skip(1).all(|p| p.path_type.is_none()), "segment split");
                    total += s.path.curve().path().len();
                }
            }
            assert!(sliders == 1, "the line did not decode to one slider");
            println!("ok {total} 0");
        }
        "mirror" => {
            let mx = v.iter().fold(0.0f32, |m, p| m.max(p.0.abs()).max(p.1.abs()));
            println!("max |coordinate| {mx}; {}", mirror(&v, 3_000_000))
        }
        _ => panic!("api"),
    }
}

fn main() {
    let args: Vec<String> = env::args().skip(1).collect();
    if args.first().map(String::as_str) == Some("example") {
        // the segment of C01_T01g_ieee_bounded_example, as the decoder produces it
        let text = "osu file format v14\n\n[HitObjects]\n0,0,0,2,0,B|131072:-131072|-131072:131072|131072:131072,1,100\n";
        let mut h: HitObjects = rosu_map::from_str(text).expect("decode");
        for o in h.hit_objects.iter_mut() {
            if let HitObjectKind::Slider(s) = &mut o.kind {
                let cps: Vec<(u32, u32)> = s.path.control_points().iter().map(|p| (p.pos.x.to_bits(), p.pos.y.to_bits())).collect();
                println!("control points (bits): {cps:?}");
                println!("path vertices: {}", s.path.curve().path().len());
            }
        }
        return;
    }
    if args.first().map(String::as_str) == Some("case") {
        child(&args[1..]);
        return;
    }
    let quick = args.first().map(String::as_str) == Some("quick");
    let exe = env::current_exe().unwrap();
    let watchdog = Duration::from_secs(10);
    let mut ran = 0u64;
    let mut bad: Vec<String> = Vec::new();
    let mut slowest = (Duration::ZERO, String::new());
    let mut per_family: std::collections::BTreeMap<String, (u64, u128, usize)> = Default::default();

    // streams:
    //   in    around the corners of what a file can contain: +-131072 (absolute), +-262144 (relative
    //         to a slider at the opposite corner); amplitudes of 1..100 ulps
    //   deep  the same places, amplitudes of 1000 / 10000 ulps (many subdivisions)
    //   gap   2^19 .. just below 2^22: beyond the parser's range, below the first finite hang
    //         (public API only)
    //   far   2^22 and beyond (public API only): a few witnesses, the loop does not return there;
    //         plus the two segments of Proofs/BezierIEEEFinite.v
    let stream = args.get(1).cloned().unwrap_or_else(|| "in".into());
    let out_of_range = stream == "gap" || stream == "far";
    let bases: Vec<(&str, f32, f32)> = match stream.as_str() {
        "in" | "deep" => vec![
            ("+131072,+131072", 131072.0, 131072.0),
            ("-131072,+131071.99", -131072.0, ulps(131072.0, -1)),
            ("+131071.99,-131071.99", ulps(131072.0, -1), ulps(-131072.0, 1)),
            ("+262144,-262144 (slider at the opposite corner)", 262144.0, -262144.0),
            ("+262143.98,+262143.98", ulps(262144.0, -1), ulps(262144.0, -1)),
            ("+65536,+100000.3", 65536.0, 100000.3),
        ],
        "gap" => vec![
            ("2^19,2^19", 524288.0, 524288.0),
            ("2^20,-2^20", 1048576.0, -1048576.0),
            ("2^21,2^21", 2097152.0, 2097152.0),
            ("3*2^20,2^21", 3145728.0, 2097152.0),
            ("4100000,-4100000 (every family stays below 2^22)", 4100000.0, -4100000.0),
            ("-4000000,3.5*2^20 (every family stays below 2^22)", -4000000.0, 3670016.0),
        ],
        "far" => vec![
            ("2^22,2^22", 4194304.0, 4194304.0),
            ("2^23,2^23", 8388608.0, 8388608.0),
            ("2^24,-2^24", 16777216.0, -16777216.0),
            ("2^30,2^30", 1073741824.0, 1073741824.0),
            ("2^100,2^100", 1.2676506e30, 1.2676506e30),
            ("2^126,2^126", 8.507059e37, 8.507059e37),
        ],
        _ => panic!("stream"),
    };
    let families: Vec<&str> = if stream == "far" {
        vec!["zig", "box"]
    } else {
        vec!["ramp", "ramp2", "zig", "zigramp", "saw3", "saw4", "odd", "box", "walk", "two"]
    };
    let sizes: Vec<usize> = match (stream.as_str(), quick) {
        ("far", _) => vec![3, 5],
        ("deep", _) => vec![5, 50, 500, 2000],
        (_, true) => vec![3, 50, 400],
        ("gap", false) => vec![3, 4, 5, 7, 50, 257, 1000],
        _ => vec![3, 4, 5, 7, 50, 51, 100, 257, 500, 1000, 2000],
    };
    let amps: Vec<i64> = match (stream.as_str(), quick) {
        ("far", _) => vec![1, 2],
        ("deep", _) => vec![1000, 10000],
        (_, true) => vec![1, 30],
        _ => vec![1, 2, 3, 7, 30, 100],
    };
    let seeds: u64 = if quick { 1 } else { 3 };
    let watchdog = if stream == "far" { Duration::from_secs(3) } else { watchdog };

    let mut cases: Vec<Vec<String>> = Vec::new();
    for (_, bx, by) in &bases {
        for &f in &families {
            for &n in &sizes {
                for &a in &amps {
                    let randomised = matches!(f, "odd" | "box" | "walk" | "two");
                    for seed in 1..=(if randomised { seeds } else { 1 }) {
                        for api in ["new", "borrowed", "line"] {
                            if api == "line" && out_of_range {
                                continue;
                            }
                            if api == "borrowed" && n > 100 {
                                continue;
                            }
                            cases.push(vec![
                                api.to_string(),
                                f.to_string(),
                                n.to_string(),
                                format!("{:x}", bx.to_bits()),
                                format!("{:x}", by.to_bits()),
                                a.to_string(),
                                seed.to_string(),
                            ]);
                        }
                    }
                }
            }
        }
    }
    if stream == "far" {
        for w in ["w23", "w22"] {
            for api in ["new", "borrowed"] {
                cases.push(vec![api.to_string(), w.to_string(), "3".into(), "0".into(), "0".into(), "0".into(), "0".into()]);
            }
        }
    }
    println!("stream {stream}: {} cases, watchdog {} s each", cases.len(), watchdog.as_secs());
    for c in &cases {
        let t0 = Instant::now();
        // address space of the child limited to 2 GB: a loop that does not return keeps pushing arrays
        let sh = format!("ulimit -v 2000000; exec {} case {}", exe.display(), c.join(" "));
        let mut ch = Command::new("sh").arg("-c").arg(&sh).stdout(Stdio::piped()).stderr(Stdio::null()).spawn().unwrap();
        let mut status = None;
        while t0.elapsed() < watchdog {
            if let Some(s) = ch.try_wait().unwrap() {
                status = Some(s);
                break;
            }
            std::thread::sleep(Duration::from_millis(if t0.elapsed() < Duration::from_millis(50) { 1 } else { 20 }));
        }
        let el = t0.elapsed();
        ran += 1;
        let key = format!("{} {}", c[0], c[1]);
        match status {
            None => {
                let _ = ch.kill(); // our own child, by its PID
                let _ = ch.wait();
                // classify with the instrumented re-implementation (bounded)
                let mut m = c.clone();
                m[0] = "mirror".into();
                let out = Command::new(&exe).arg("case").args(&m).output().unwrap();
                let msg = format!("NO RETURN within the watchdog: case {} | {}", c.join(" "), String::from_utf8_lossy(&out.stdout).trim());
                println!("{msg}");
                bad.push(msg);
            }
            Some(s) => {
                let mut out = String::new();
                ch.stdout.take().unwrap().read_to_string(&mut out).unwrap();
                if !s.success() || !out.starts_with("ok") {
                    let mut m = c.clone();
                    m[0] = "mirror".into();
                    let mo = Command::new(&exe).arg("case").args(&m).output().unwrap();
                    let msg = format!("ABNORMAL EXIT ({s}; memory limit 2 GB) after {} ms: case {} | {} | {}", el.as_millis(), c.join(" "), out.trim(), String::from_utf8_lossy(&mo.stdout).trim());
                    println!("{msg}");
                    bad.push(msg);
                } else {
                    let vtx: usize = out.split_whitespace().nth(1).unwrap().parse().unwrap();
                    let e = per_family.entry(key).or_insert((0, 0, 0));
                    e.0 += 1;
                    e.1 = e.1.max(el.as_millis());
                    e.2 = e.2.max(vtx);
                }
            }
        }
        if el > slowest.0 {
            slowest = (el, c.join(" "));
        }
    }
    println!("api family: cases returned, slowest (ms), most path vertices");
    for (k, (n, ms, vtx)) in &per_family {
        println!("  {k}: {n}, {ms} ms, {vtx}");
    }
    println!("ran {ran} cases; slowest {:?} ({})", slowest.0, slowest.1);
    println!("cases that did not return or ended abnormally: {}", bad.len());
    for b in &bad {
        println!("  {b}");
    }
}

// Probe for C02 / T02b (hit-object lines of circles, spinners, holds): decode a small map, encode it,
// decode again; print the objects and their samples before and after.  Run: cargo run --offline
use rosu_map::section::hit_objects::{HitObjectKind, hit_samples::{HitSampleInfo, HitSampleInfoName}};
use rosu_map::Beatmap;

fn show(s: &[HitSampleInfo]) -> String {
    s.iter().map(|x| {
        let n = match &x.name { HitSampleInfoName::Default(d) => d.to_lowercase_str().to_string(), HitSampleInfoName::File(f) => format!("file:{:?}", f) };
        format!("[{} bank={:?} spec={} vol={} custom={} suffix={:?} layered={}]", n, x.bank, x.bank_specified, x.volume, x.custom_sample_bank, x.suffix, x.is_layered)
    }).collect::<Vec<_>>().join(" ")
}
fn kind(k: &HitObjectKind) -> String {
    match k {
        HitObjectKind::Circle(c) => format!("circle pos=({},{}) nc={} off={}", c.pos.x, c.pos.y, c.new_combo, c.combo_offset),
        HitObjectKind::Spinner(s) => format!("spinner pos=({},{}) dur={:?} nc={}", s.pos.x, s.pos.y, s.duration, s.new_combo),
        HitObjectKind::Hold(h) => format!("hold x={} dur={:?}", h.pos_x, h.duration),
        HitObjectKind::Slider(_) => "slider".to_string(),
    }
}
fn run(label: &str, head: &str, lines: &[&str]) {
    let mut text = String::from("osu file format v14\n\n");
    text.push_str(head);
    text.push_str("[HitObjects]\n");
    for l in lines { text.push_str(l); text.push('\n'); }
    println!("=== {label}");
    let mut m1: Beatmap = rosu_map::from_str(&text).unwrap();
    let enc = m1.encode_to_string().unwrap();
    let m2: Beatmap = rosu_map::from_str(&enc).unwrap();
    println!(" objects: decoded {} / re-decoded {}", m1.hit_objects.len(), m2.hit_objects.len());
    let ho_lines: Vec<&str> = enc.lines().skip_while(|l| *l != "[HitObjects]").skip(1).collect();
    for (i, h) in m1.hit_objects.iter().enumerate() {
        println!(" in : {}", lines.get(i).unwrap_or(&"?"));
        println!(" m1 : t={:?} {} | {}", h.start_time, kind(&h.kind), show(&h.samples));
        println!(" enc: {}", ho_lines.get(i).unwrap_or(&"?"));
        if let Some(h2) = m2.hit_objects.get(i) {
            println!(" m2 : t={:?} {} | {}", h2.start_time, kind(&h2.kind), show(&h2.samples));
        }
    }
}
fn main() {
    let plain = "";
    run("spinner end at the parse limit, negative fractional start", plain, &["256,192,-3112.53,12,0,2147483647,0:0:0:0:"]);
    run("hold end at the parse limit, negative fractional start", plain, &["100,192,-3112.53,128,0,2147483647:0:0:0:0:"]);
    run("spinner, start -290.702", plain, &["256,192,-290.702,12,0,2147483647,0:0:0:0:", "64,192,2147483647,1,0,0:0:0:0:"]);
    samples();
}
fn samples() {

    let plain = "";
    run("banks 0:0, all additions", plain, &["64,192,1000,1,14,0:0:0:0:"]);
    run("normal 2 add 0 (fallback)", plain, &["64,192,1000,1,14,2:0:0:0:"]);
    run("normal 0 add 3", plain, &["64,192,1000,1,6,0:3:0:0:"]);
    run("file + additions, normal 2", plain, &["64,192,1000,1,10,2:0:5:70:a.wav"]);
    run("file + additions, normal 0 add 0", plain, &["64,192,1000,1,10,0:0:5:70:a.wav"]);
    run("custom 5 volume 70 std", plain, &["64,192,1000,1,2,1:2:5:70:"]);
    run("custom 5 volume 70 mania", "[General]\nMode: 3\n\n", &["64,192,1000,1,2,1:2:5:70:", "192,192,1500,128,4,2000:3:0:2:40:"]);
    run("sound with normal bit 3", plain, &["64,192,1000,1,3,0:0:0:0:"]);
    run("bank numbers 7 (unknown -> normal)", plain, &["64,192,1000,1,2,7:9:0:0:"]);
    run("sample point bank soft via timing points", "[TimingPoints]\n0,500,4,2,1,60,1,0\n\n", &["64,192,1000,1,2,0:0:0:0:", "64,192,1100,1,2,3:0:0:0:"]);
    run("general sampleset none + tp sample set 0", "[General]\nSampleSet: None\n\n[TimingPoints]\n0,500,4,0,0,60,1,0\n\n", &["64,192,1000,1,2,0:0:0:0:"]);
    run("spinner / hold fractional", plain, &["256,192,1000.1,12,0,3000.3,0:0:0:0:", "100,192,0.1,128,0,0.3:0:0:0:0:", "100,192,5000,128,0,4000:0:0:0:0:"]);
    run("circle combos", plain, &["64,192,1000,1,0,0:0:0:0:", "64,192,1100,33,0,0:0:0:0:", "64,192,1200,37,0,0:0:0:0:", "256,192,1300,8,0,1400,0:0:0:0:", "64,192,1500,1,0,0:0:0:0:"]);
    run("no extras", plain, &["64,192,1000,1,2", "256,192,1300,12,4,1400", "100,192,1500,128,8"]);
}

use rosu_map::Beatmap;
fn show(tag: &str, text: &str) {
    let m1 = Beatmap::from_bytes(text.as_bytes()).unwrap();
    let enc = m1.clone().encode_to_string().unwrap();
    let m2 = Beatmap::from_bytes(enc.as_bytes()).unwrap();
    println!("--- {tag}");
    println!("  objects {} -> {}", m1.hit_objects.len(), m2.hit_objects.len());
    let d1: Vec<_> = m1.control_points.difficulty_points.iter().map(|p| (p.time, p.slider_velocity)).collect();
    let d2: Vec<_> = m2.control_points.difficulty_points.iter().map(|p| (p.time, p.slider_velocity)).collect();
    println!("  difficulty {:?} -> {:?}", d1, d2);
    for l in enc.lines().skip_while(|l| *l != "[TimingPoints]").take_while(|l| !l.is_empty()) { println!("  | {l}"); }
    for l in enc.lines().skip_while(|l| *l != "[HitObjects]") { println!("  | {l}"); }
}
fn main() {
    show("D26 spinner", "osu file format v14\n\n[HitObjects]\n256,192,-3112.53,12,0,2147483647,0:0:0:0:\n");
    show("D26 hold", "osu file format v14\n\n[HitObjects]\n100,192,-3112.53,128,0,2147483647:0:0:0:0:\n");
    show("D27 near one", "osu file format v14\n\n[TimingPoints]\n0,500,4,1,0,100,1,0\n0,-50,4,1,0,100,0,0\n100,400,4,1,0,100,1,0\n100,-100.00000000000001,4,1,0,100,0,0\n");
    show("D28 near time", "osu file format v14\n\n[TimingPoints]\n0,500,4,1,0,100,1,0\n0,-50,4,1,0,100,0,0\n\n[HitObjects]\n256,192,0.00000000000000001,1,0,0:0:0:50:\n");
}

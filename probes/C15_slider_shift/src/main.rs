//! C15 / T15d probe: is a whole-millisecond shift of every time in the file
//! invisible for SLIDERS at integer start times?  The slider's end is
//! fl(start + duration) with a non-integer duration, and the sample point is
//! looked up at fl(end + 5).  When start + duration + 5 lies a hair below a
//! sample point's (integer) time, the rounding of the sum depends on the
//! magnitude of start, i.e. on the shift.
use rosu_map::section::hit_objects::{HitObjectKind, HitObjects};

fn text(sm: &str, beat_len: &str, start: i64, len: &str, repeats: i32, sample_at: i64, shift: i64) -> String {
    let mut s = String::from("osu file format v14\n\n[General]\nMode: 0\n\n[Difficulty]\n");
    s += &format!("SliderMultiplier:{}\n\n[TimingPoints]\n", sm);
    // red line (volume 100) long before the slider, green line (volume 30) at `sample_at`
    s += &format!("{},{},4,1,0,100,1,0\n", -10_000 + shift, beat_len);
    s += &format!("{},-100,4,1,0,30,0,0\n", sample_at + shift);
    s += "\n[HitObjects]\n";
    s += &format!("100,100,{},2,0,L|300:100,{},{}\n", start + shift, repeats, len);
    s
}

fn decode(t: &str) -> HitObjects {
    rosu_map::from_bytes::<HitObjects>(t.as_bytes()).expect("decode")
}

fn slider_info(h: &mut HitObjects) -> (f64, f64, i32, Vec<i32>) {
    let o = &mut h.hit_objects[0];
    let vol = o.samples.first().map_or(-1, |s| s.volume);
    let start = o.start_time;
    if let HitObjectKind::Slider(ref mut s) = o.kind {
        let d = s.duration();
        let nodes = s.node_samples.iter().map(|n| n.first().map_or(-1, |x| x.volume)).collect();
        (start, d, vol, nodes)
    } else {
        panic!("not a slider")
    }
}

fn main() {
    let sms = ["1.4", "1", "1.8", "2", "0.7", "1.2", "1.6", "2.4", "3.6", "0.4", "1.85", "1.7", "1.3"];
    let bls = ["500", "400", "300", "333.33", "375", "428.57", "600", "461.54", "250", "1000"];
    let shifts = [1i64, 7, 1000, 100_000, 1_000_000, -1_000_000, 123_456];
    let mut found = 0;
    let mut near = 0;
    'outer: for sm in sms {
        for bl in bls {
            for len in 10..=600 {
                for repeats in 1..=2 {
                    let ls = format!("{}", len);
                    // unshifted, sample point far away: read the duration
                    let mut h = decode(&text(sm, bl, 1000, &ls, repeats, 900_000, 0));
                    let (_, d, _, _) = slider_info(&mut h);
                    let r = d.round();
                    if d == r || (d - r).abs() > 1e-9 || !(d < r) {
                        continue;
                    }
                    near += 1;
                    // duration a hair BELOW the integer r: put the green line at start + r + 5
                    let start = 1000i64;
                    let at = start + r as i64 + 5;
                    let mut a = decode(&text(sm, bl, start, &ls, repeats, at, 0));
                    let (s0, d0, v0, n0) = slider_info(&mut a);
                    for k in shifts {
                        let mut b = decode(&text(sm, bl, start, &ls, repeats, at, k));
                        let (s1, d1, v1, n1) = slider_info(&mut b);
                        if v0 != v1 || n0 != n1 || d0.to_bits() != d1.to_bits() {
                            found += 1;
                            if found <= 8 {
                                println!("SHIFT-VARIANT: SliderMultiplier {} beat_len {} length {} repeats {}", sm, bl, len, repeats);
                                println!("  duration = {:?} (bits {:#x}), just below {}", d0, d0.to_bits(), r);
                                println!("  shift 0: start {:?} end+5 = {:?} sample point at {} -> volume {} nodes {:?}", s0, (s0 + d0) + 5.0, at, v0, n0);
                                println!("  shift {}: start {:?} end+5 = {:?} sample point at {} -> volume {} nodes {:?}", k, s1, (s1 + d1) + 5.0, at + k, v1, n1);
                                println!("  text (shift 0):\n{}", text(sm, bl, start, &ls, repeats, at, 0));
                            }
                            if found >= 200 {
                                break 'outer;
                            }
                            break;
                        }
                    }
                }
            }
        }
    }
    println!("sliders with a duration a hair below an integer: {}; shift-variant among them: {}", near, found);
    negative_zero();
}

/// "-0" is a time too: total_cmp sorts -0.0 before +0.0, a shift maps both to k (relative of D8)
fn negative_zero() {
    let text = |a: &str, b: &str| {
        format!("osu file format v14\n\n[General]\nMode: 0\n\n[HitObjects]\n10,10,{},1,0,0:0:0:0:\n20,20,{},1,0,0:0:0:0:\n", a, b)
    };
    let xs = |t: &str| -> Vec<(f32, f64)> {
        decode(t)
            .hit_objects
            .iter()
            .map(|h| match &h.kind {
                HitObjectKind::Circle(c) => (c.pos.x, h.start_time),
                _ => (-1.0, h.start_time),
            })
            .collect()
    };
    println!("NEGATIVE ZERO: objects `10,10,0` then `20,20,-0` come out as {:?}", xs(&text("0", "-0")));
    println!("               shifted by 7 (`10,10,7` then `20,20,7`)        {:?}", xs(&text("7", "7")));
}

use rosu_map::Beatmap;
fn main() {
    let t = "osu file format v14\n\n[General]\nMode: 0\n\n[TimingPoints]\n-0,-50,4,1,0,100,0,0\n0,500,4,1,0,100,1,0\n\n[HitObjects]\n";
    let mut m: Beatmap = rosu_map::from_str(t).unwrap();
    println!("{:?}\n{:?}", m.control_points.timing_points, m.control_points.difficulty_points);
    let e = m.encode_to_string().unwrap();
    let i = e.find("[TimingPoints]").unwrap();
    println!("{}", &e[i..i+200.min(e.len()-i)]);
    let m2: Beatmap = rosu_map::from_str(&e).unwrap();
    println!("{:?}\n{:?}", m2.control_points.timing_points, m2.control_points.difficulty_points);
}

// D32 candidate: a slider whose end time (start + spans * dist / velocity) lies beyond the parse limit.
// The sample point that collect_samples puts at a node time beyond 2147483647 is written as a
// [TimingPoints] line that parse_timing_points rejects on re-read.
use rosu_map::{Beatmap, BeatmapState, DecodeBeatmap, DecodeState};
fn main() {
    let text = "osu file format v14\n\n[Difficulty]\nSliderMultiplier:0.4\n\n[TimingPoints]\n0,60000,4,1,0,100,1,0\n0,-1000,4,1,0,100,0,0\n\n[HitObjects]\n0,0,0,2,0,L|100000:0,2,100000,0|0|0,0:0:0:50:|0:0:0:60:|0:0:0:70:\n";
    let m1 = Beatmap::from_bytes(text.as_bytes()).unwrap();
    let enc = m1.clone().encode_to_string().unwrap();
    let mut st = BeatmapState::create(14);
    for l in enc.lines().skip_while(|l| *l != "[TimingPoints]").skip(1).take_while(|l| !l.is_empty()) {
        let ok = Beatmap::parse_timing_points(&mut st, l).is_ok();
        println!("{ok} | {l}");
    }
    let m2 = Beatmap::from_bytes(enc.as_bytes()).unwrap();
    println!("objects {} -> {}", m1.hit_objects.len(), m2.hit_objects.len());
}

// D30 candidate: a sample file name that ends in white space (or is white space only).
// The file name is the fifth `:` piece of the extras field; it keeps trailing white space
// when the extras field is not the end of the line (a further `,` field or a sixth `:`
// piece follows).  The encoder writes the name as the last thing on the line, and the
// decoder's `trim_comment` (`trim_end`) removes the white space on re-read.
use rosu_map::{section::hit_objects::{hit_samples::HitSampleInfoName, HitObjectKind}, Beatmap};

fn names(m: &Beatmap) -> Vec<Vec<String>> {
    m.hit_objects
        .iter()
        .map(|h| {
            let mut v: Vec<String> = h
                .samples
                .iter()
                .map(|s| match &s.name {
                    HitSampleInfoName::File(f) => format!("File({f:?})"),
                    HitSampleInfoName::Default(d) => format!("Default({d})"),
                })
                .collect();
            if let HitObjectKind::Slider(ref s) = h.kind {
                for n in s.node_samples.iter() {
                    v.push(format!(
                        "node[{}]",
                        n.iter()
                            .map(|s| match &s.name {
                                HitSampleInfoName::File(f) => format!("File({f:?})"),
                                HitSampleInfoName::Default(d) => format!("Default({d})"),
                            })
                            .collect::<Vec<_>>()
                            .join(",")
                    ));
                }
            }
            v
        })
        .collect()
}

fn show(tag: &str, text: &str) {
    let m1 = Beatmap::from_bytes(text.as_bytes()).unwrap();
    let enc = m1.clone().encode_to_string().unwrap();
    let m2 = Beatmap::from_bytes(enc.as_bytes()).unwrap();
    println!("--- {tag}");
    println!("  input line(s):");
    for l in text.lines().skip_while(|l| *l != "[HitObjects]").skip(1) {
        println!("  > {l:?}");
    }
    println!("  objects {} -> {}", m1.hit_objects.len(), m2.hit_objects.len());
    println!("  names first decode : {:?}", names(&m1));
    println!("  names second decode: {:?}", names(&m2));
    println!("  same: {}", names(&m1) == names(&m2));
    for l in enc.lines().skip_while(|l| *l != "[HitObjects]").skip(1) {
        println!("  | {l:?}");
    }
}

fn main() {
    let head = "osu file format v14\n\n[General]\nMode: 3\n\n[HitObjects]\n";
    let head0 = "osu file format v14\n\n[HitObjects]\n";
    show("control: plain file name", &format!("{head0}256,192,1000,1,0,0:0:0:0:a.wav\n"));
    show("trailing space, extra comma field", &format!("{head0}256,192,1000,1,0,0:0:0:0:a.wav ,x\n"));
    show("trailing space, sixth colon piece", &format!("{head0}256,192,1000,1,0,0:0:0:0:a.wav :x\n"));
    show("white space only name", &format!("{head0}256,192,1000,1,0,0:0:0:0: :x\n"));
    show("mania hold, trailing tab", &format!("{head}100,192,1000,128,0,2000:0:0:0:0:b.wav\t:x\n"));
    show("spinner", &format!("{head0}256,192,1000,12,0,2000,0:0:0:0:c.wav ,x\n"));
    show("slider", &format!("{head0}100,100,1000,2,0,L|200:100,1,100,0|0,0:0|0:0,0:0:0:0:d.wav ,x\n"));
    // not D30: a file name on a slider NODE (edge-set piece read with banks_only = false)
    show("slider node with a file name", &format!("{head0}100,100,1000,2,0,L|200:100,1,100,0|0,0:0:0:0:n.wav|0:0,0:0:0:0:\n"));
}

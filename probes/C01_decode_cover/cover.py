# how many hit-object lines of the .osu files at hand satisfy the input-side conditions of
# C01_decode_terminates_segments_lines (per line: <= 16 pieces, or runs of point pieces <= 14)
import glob, sys
files = glob.glob('/repo/resources/**/*.osu', recursive=True) + glob.glob('corpus/**/*.osu', recursive=True)
def field(line):
    i = line.find('//')
    # trim_comment of the model: cut at "//"
    if i >= 0: line = line[:i]
    f = line.rstrip().split(',')
    return f[5] if len(f) > 5 else ''
def pieces(s): return s.split('|')
def max_run(s):
    ps = pieces(s)[1:]
    best = cur = 0
    for t in ps:
        if t == '': return max(best, cur)
        if t[0].isascii() and t[0].isalpha():
            best = max(best, cur); cur = 0
        else:
            cur += 1
    return max(best, cur)
tot = sl = ok16 = okseg = 0; worst = (0, '')
bad_files = set()
for fn in files:
    try: txt = open(fn, encoding='utf-8', errors='replace').read()
    except Exception: continue
    for line in txt.splitlines():
        tot += 1
        fl = field(line)
        n = len(pieces(fl)); r = max_run(fl)
        a = n <= 16; b = r <= 14
        if '|' in fl and len(line.split(',')) > 5: sl += 1
        ok16 += a; okseg += (a or b)
        if not (a or b):
            bad_files.add(fn)
            if r > worst[0]: worst = (r, fn)
print('files', len(files), 'lines', tot, 'lines with a | in field 6', sl)
print('lines_fit 16 holds for', ok16, 'lines; line_seg_fits for', okseg, 'lines; failing', tot - okseg)
print('files with a failing line:', len(bad_files), 'longest run', worst)

# graded state-side condition (obj_seg_fits_some), replicated approximately: integer truncation of plain decimal tokens
import math
def graded_ok(line):
    f = line.split(',')
    try:
        hx = int(float(f[0])); hy = int(float(f[1]))
        ps = f[5].split('|')
    except Exception: return None
    pts = []; best = cur = 0
    for t in ps[1:]:
        if t and t[0].isalpha(): best = max(best, cur); cur = 0; continue
        try:
            x, y = t.split(':')[:2]; pts.append((int(float(x)) - hx, int(float(y)) - hy)); cur += 1
        except Exception: return None
    best = max(best, cur)
    seglen = best + 2
    m = max([1] + [max(abs(a), abs(b)) for a, b in pts])
    E = max(0, math.ceil(math.log2(m)))
    return seglen * 2 ** E <= 2 ** 22, seglen, E
n = good = 0; worstg = None
for fn in files:
    for line in open(fn, encoding='utf-8', errors='replace').read().splitlines():
        f = line.split(',')
        if len(f) > 5 and '|' in f[5]:
            try:
                if not (int(f[3]) & 2): continue
            except Exception: continue
            r = graded_ok(line)
            if r is None: continue
            n += 1; good += r[0]
            if worstg is None or r[1] * 2 ** r[2] > worstg[0]: worstg = (r[1] * 2 ** r[2], r[1], r[2], fn)
print('slider lines', n, 'graded condition holds for', good, 'largest seglen*2^E', worstg, 'limit', 2**22)

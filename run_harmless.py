#!/usr/bin/env python3
"""run_harmless.py [--only id ...] [--props Cxx,Cyy] [--jobs n]
Runs every kept behaviour-preserving change (harmless/<id>/patch.diff) against ALL quick checks
(or the given ones) in scratch copies; a check that raises an alarm on one of them is a false
alarm of the machinery.  Updates harmless/<id>/meta.json and writes harmless/RESULTS.md."""
import concurrent.futures as cf
import json
import os
import re
import subprocess
import sys

ROOT = os.path.dirname(os.path.abspath(__file__))
ALL = [f"C{i:02d}" for i in range(1, 21)]


def run_one(hid, props):
    d = os.path.join(ROOT, "harmless", hid)
    p = subprocess.run([os.path.join(ROOT, "seedtest_scratch.sh"), os.path.join(d, "patch.diff"), "quick"] + props,
                       stdout=subprocess.PIPE, stderr=subprocess.STDOUT, timeout=4 * 3600)
    out = p.stdout.decode("utf-8", "replace")
    res = {}
    for pr in props:
        m = re.search(rf"^DETECTED {pr}: (.*)$", out, flags=re.M)
        if m:
            res[pr] = "ALARM " + m.group(1)[:200]
        elif re.search(rf"^MISSED {pr}", out, flags=re.M):
            res[pr] = "quiet"
        else:
            res[pr] = "error"
    return hid, res, out


def main():
    a = sys.argv[1:]
    only = set(a[a.index("--only") + 1:]) if "--only" in a else None
    props = a[a.index("--props") + 1].split(",") if "--props" in a else ALL
    jobs = int(a[a.index("--jobs") + 1]) if "--jobs" in a else 2
    if only and "--props" in a:
        only = set(x for x in only if not x.startswith("--") and x not in (a[a.index("--props") + 1],))
    ids = sorted(s for s in os.listdir(os.path.join(ROOT, "harmless")) if os.path.isdir(os.path.join(ROOT, "harmless", s)))
    todo = [i for i in ids if not only or i in only]
    with cf.ThreadPoolExecutor(max_workers=jobs) as ex:
        for f in cf.as_completed([ex.submit(run_one, i, props) for i in todo]):
            hid, res, out = f.result()
            print(hid, {k: v for k, v in res.items() if v != "quiet"} or "all quiet", flush=True)
            mp = os.path.join(ROOT, "harmless", hid, "meta.json")
            meta = json.load(open(mp))
            r = meta.get("result") or {}
            r.update(res)
            meta["result"] = r
            meta["what_i_ran"] = f"seedtest_scratch.sh harmless/{hid}/patch.diff quick " + " ".join(props)
            json.dump(meta, open(mp, "w"), indent=1)
            with open(os.path.join(ROOT, "harmless", hid, "last_run.log"), "w") as fh:
                fh.write(out[-8000:])
    lines = ["# Behaviour-preserving changes and what the quick checks say about them", "",
             "| change | what | checks run | alarms |", "|---|---|---|---|"]
    for i in ids:
        meta = json.load(open(os.path.join(ROOT, "harmless", i, "meta.json")))
        r = meta.get("result") or {}
        al = {k: v for k, v in r.items() if v != "quiet"}
        lines.append(f"| {i} | {(meta.get('what') or '').replace(chr(10), ' ').replace('|', '/')[:200]} | {len(r)} | "
                     + ("; ".join(f"{k}: {v}" for k, v in sorted(al.items())) or "none") + " |")
    open(os.path.join(ROOT, "harmless", "RESULTS.md"), "w").write("\n".join(lines) + "\n")


if __name__ == "__main__":
    main()

#!/bin/sh
# verify_seed.sh <dir-with-patchN.diff,demoN.rs> <N>
# Confirms in a scratch worktree of /repo: demo passes on the clean tree; with
# the patch: builds, existing suite passes, demo fails.  Prints a summary line.
D="$(realpath "$1")"; N="$2"
W=/tmp/vs.$$
git -C /repo worktree add -q --detach $W HEAD || exit 2
trap 'git -C /repo worktree remove --force $W 2>/dev/null; rm -rf $W' EXIT INT TERM
cd $W
cp "$D/demo$N.rs" tests/seed_demo.rs
export CARGO_NET_OFFLINE=true CARGO_TARGET_DIR=/tmp/vs-target
clean_demo=$(cargo test --offline --test seed_demo 2>&1 | grep -E "^test result:" | head -1)
git apply "$D/patch$N.diff" || { echo "RESULT patch-does-not-apply"; exit 1; }
b1=$(cargo build --offline 2>&1 | tail -1)
b2=$(cargo build --offline --features verif-hooks 2>&1 | tail -1)
mv tests/seed_demo.rs /tmp/vs-demo.$$.rs
suite=$(cargo test --offline 2>&1 | grep -E "^test result:" | awk '{p+=$4; f+=$6} END {print p" passed "f" failed"}')
mv /tmp/vs-demo.$$.rs tests/seed_demo.rs
mut_demo=$(cargo test --offline --test seed_demo 2>&1 | grep -E "^test result:" | head -1)
echo "RESULT clean_demo=[$clean_demo] build=[$b1|$b2] suite=[$suite] mutated_demo=[$mut_demo]"

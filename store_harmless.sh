#!/bin/sh
# store_harmless.sh <Hk> : keep /tmp/harm/Hk/out/patchN.diff (+notes) as /verif/harmless/Hk-N/
H="$1"; S=/tmp/harm/$H/out
for N in 1 2 3; do
  [ -f $S/patch$N.diff ] || continue
  T=/verif/harmless/$H-$N; mkdir -p $T
  cp $S/patch$N.diff $T/patch.diff; cp $S/notes$N.md $T/notes.md 2>/dev/null
  python3 - "$H-$N" <<'PY'
import json,sys
i=sys.argv[1]
notes=open(f'/verif/harmless/{i}/notes.md').read()
json.dump({"id":i,"kind":"behaviour-preserving change (no property is broken)","source":"independent sub-agent given only an area of the code and a scratch worktree of /repo",
 "what":notes.strip().split('\n\n')[0][:600],"expected":"every quick check exits 0","result":None},open(f'/verif/harmless/{i}/meta.json','w'),indent=1)
PY
  echo "STORED $H-$N"
done

#!/usr/bin/env python3
"""Rewrites the generated status block (between STATUS-BEGIN/END) of DESIGN.md from gen_manifest.CLAIMS."""
import importlib.util, json, os
ROOT = os.path.dirname(os.path.abspath(__file__))
spec = importlib.util.spec_from_file_location('gm', os.path.join(ROOT, 'gen_manifest.py'))
gm = importlib.util.module_from_spec(spec); spec.loader.exec_module(gm)
props = {json.loads(l)['id']: json.loads(l) for l in open(os.path.join(ROOT, 'properties.jsonl'))}
lines = ["# 6.0 Status per property, as built (generated from gen_manifest.py; supersedes the plan below where they differ)", "",
         "The legend of the plan below ([F]/[P]/[R]) is kept for reference; this list says what is actually proved, what is partial, and how each check is tied to the code. Property files are `coq/Properties/Cxx.v`; every theorem there is closed by `exact` of a lemma from `coq/Proofs/` and followed by `Print Assumptions`.", ""]
for pid in sorted(props):
    if pid in gm.CLAIMS:
        lines.append(f"* **{pid} — {props[pid]['title']}.** {gm.CLAIMS[pid][0]}")
    else:
        lines.append(f"* **{pid} — {props[pid]['title']}.** not claimed yet.")
    lines.append("")
block = "\n".join(lines)
p = os.path.join(ROOT, 'DESIGN.md')
s = open(p).read()
a = "<!-- STATUS-BEGIN -->"; b = "<!-- STATUS-END -->"
s = s[:s.index(a)] + a + "\n" + block + "\n" + b + s[s.index(b) + len(b):]
open(p, 'w').write(s)

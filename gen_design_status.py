#!/usr/bin/env python3
"""Rewrites the generated status block (between STATUS-BEGIN/END) of DESIGN.md from gen_manifest.CLAIMS."""
import importlib.util, json, os
ROOT = os.path.dirname(os.path.abspath(__file__))
spec = importlib.util.spec_from_file_location('gm', os.path.join(ROOT, 'gen_manifest.py'))
gm = importlib.util.module_from_spec(spec); spec.loader.exec_module(gm)
props = {json.loads(l)['id']: json.loads(l) for l in open(os.path.join(ROOT, 'properties.jsonl'))}
lines = ["# 6.0 Status per property, as built (generated from gen_manifest.py; supersedes the plan below where they differ)", "",
         "The legend of the plan below ([F]/[P]/[R]) is kept for reference; this list says what is actually proved, what is partial, and how each check is tied to the code. Property files are `coq/Properties/Cxx.v`; every theorem there is closed by `exact` of a lemma from `coq/Proofs/` and followed by `Print Assumptions`.", ""]
for pid in sorted(props):
    if pid in gm.CLAIMS:
        lines.append(f"* **{pid} — {props[pid]['title']}.** {gm.CLAIMS[pid][0]}")
    else:
        lines.append(f"* **{pid} — {props[pid]['title']}.** not claimed yet.")
    lines.append("")
block = "\n".join(lines)
p = os.path.join(ROOT, 'DESIGN.md')
s = open(p).read()
a = "<!-- STATUS-BEGIN -->"; b = "<!-- STATUS-END -->"
s = s[:s.index(a)] + a + "\n" + block + "\n" + b + s[s.index(b) + len(b):]
open(p, 'w').write(s)

# seeded-change counts (between SEEDS-BEGIN/END), from seeded/*/meta.json
sd = os.path.join(ROOT, 'seeded')
tot = fi = nf = miss = 0
retired = []
per = {}
for d in sorted(os.listdir(sd)):
    mp = os.path.join(sd, d, 'meta.json')
    if not os.path.isfile(mp):
        continue
    m = json.load(open(mp))
    if m.get('retired'):
        retired.append(d)
        continue
    r = (m.get('detected_by') or {}).get(m['property'] + '/quick', 'not run')
    tot += 1
    if r.startswith('detected') and 'no-failing' in r:
        nf += 1
    elif r.startswith('detected'):
        fi += 1
    else:
        miss += 1
    per.setdefault(m['property'], []).append(d.split('-')[1] + (':nf' if 'no-failing' in r else ('' if r.startswith('detected') else ':' + r)))
txt = (f"Current totals (generated from `seeded/*/meta.json`): **{tot}** kept changes; **{fi + nf}** detected by the quick check of the "
       f"property they target ({fi} with a concrete failing input, {nf} as a broken theorem/correspondence with `no-failing-input-found`), "
       f"{miss} not detected or not yet run. Per property (seed numbers; `:nf` = no-failing-input-found): "
       + "; ".join(f"{k}: {' '.join(v)}" for k, v in sorted(per.items())) + "."
       + (f" Retired (mechanism made inexpressible by a later repair; see its meta.json): {', '.join(retired)}." if retired else ""))
s = open(p).read()
a = "<!-- SEEDS-BEGIN -->"; b = "<!-- SEEDS-END -->"
if a in s:
    s = s[:s.index(a)] + a + "\n" + txt + "\n" + b + s[s.index(b) + len(b):]
    open(p, 'w').write(s)

# behaviour-preserving changes (between HARMLESS-BEGIN/END), from harmless/*/meta.json
hd = os.path.join(ROOT, 'harmless')
if os.path.isdir(hd):
    tot = quiet = 0
    alarms = []
    pending = []
    for d in sorted(os.listdir(hd)):
        mp = os.path.join(hd, d, 'meta.json')
        if not os.path.isfile(mp):
            continue
        m = json.load(open(mp))
        r = m.get('result') or {}
        tot += 1
        if not r:
            pending.append(d)
            continue
        al = sorted(k for k, v in r.items() if v != 'quiet')
        if al:
            alarms.append(f"{d} ({', '.join(al)})")
        else:
            quiet += 1
    txt = (f"Current totals (generated from `harmless/*/meta.json`): **{tot}** behaviour-preserving changes; **{quiet}** leave all the quick "
           f"checks they were run against quiet; alarms raised: {'; '.join(alarms) if alarms else 'none'}"
           + (f"; not yet run: {', '.join(pending)}" if pending else "") + ".")
    s = open(p).read()
    a = "<!-- HARMLESS-BEGIN -->"; b = "<!-- HARMLESS-END -->"
    if a in s:
        s = s[:s.index(a)] + a + "\n" + txt + "\n" + b + s[s.index(b) + len(b):]
        open(p, 'w').write(s)
